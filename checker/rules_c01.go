package main

import (
	"fmt"
	"go/token"
	"go/types"
	"strings"

	"golang.org/x/tools/go/ssa"
)

func init() {
	register(&propDef{
		ID: "C01",
		Explanation: "Decides the structural conditions of 'every exchange returns the reply to its own query': (R1) a wire id is inserted into the waiter table only on the absent edge of a lookup of " +
			"the same key inside one write-locked region; (R2) the reader looks the waiter up by the 16-bit id at offset 0 of the very buffer it then hands over, and releases the buffer when no " +
			"waiter takes it; (R3) exchangers never write into the caller's query bytes, and every returned reply had its id restored from the caller's original id; (R4) the id written to the " +
			"wire is the id registered in the waiter table, at the id offset of the framing used; (R5) the waiter is removed on every exit of the waiting call; (R6) a non-pipelined connection " +
			"is handed out from the idle set at most once (deleted when taken) and re-enters it only after its reply was read or when it was never used; (R7) pooled buffers are not used, sent, " +
			"stored, returned or released again after their release, and buffers with a deferred release do not escape — over the whole module. Which reply a given interleaving delivers is not decided.",
		Assumptions: []string{"16-bit DNS ids wrap after 65536 queries (scope of the property)", "encoding/binary.BigEndian semantics"},
		Run:         runC01,
	})
}

const binU16 = "(encoding/binary.bigEndian).Uint16"
const binPut16 = "(encoding/binary.bigEndian).PutUint16"
const poolGet = "var:pkg/pool.GetBuf"
const poolRel = "var:pkg/pool.ReleaseBuf"

func runC01(c *Ctx) {
	p := c.P
	T := relTransport + "."
	fns := p.funcsIn(relTransport)
	c.see(fns...)
	lf := p.newLockFacts()
	lf.analyseScope(fns)
	queueF := T + "TraditionalDnsConn.queue"

	// ---------------------------------------------------------------- R1
	c.rule("R1", "insert into the waiter table only on the absent edge of a same-key lookup, in one write-locked region", 1)
	inserter, insertKeyBase := checkWaiterInsertAbsent(c, lf)

	// ---------------------------------------------------------------- R2
	c.rule("R2", "reader dispatches by the id at offset 0 of the buffer it hands over; unclaimed buffers are released", 3)
	for _, f := range fns {
		if f.Signature.Recv() == nil || typeKey(f.Signature.Recv().Type()) != T+"TraditionalDnsConn" {
			continue
		}
		eachInstr(f, func(in ssa.Instruction) {
			sel, ok := in.(*ssa.Select)
			if !ok || sel.Blocking {
				return
			}
			for _, st := range sel.States {
				if st.Dir != types.SendOnly || !isReplyChanType(st.Chan.Type()) {
					continue
				}
				key := "dispatch@" + funcName(f)
				buf := st.Send
				// buffer = first result of the frame reader
				fromReader := false
				var readCall *ssa.Call
				var altReads []*ssa.Call
				if ex, ok := buf.(*ssa.Extract); ok && ex.Index == 0 {
					if cl, ok := ex.Tuple.(*ssa.Call); ok {
						readCall = cl
						fromReader = true
					}
				}
				// the frame reader chosen by transport in place: a phi of the first results of the alternative reads
				if ph, ok := buf.(*ssa.Phi); ok && len(ph.Edges) > 0 {
					all := true
					for _, e := range ph.Edges {
						ex, ok := e.(*ssa.Extract)
						if !ok || ex.Index != 0 {
							all = false
							break
						}
						cl, ok := ex.Tuple.(*ssa.Call)
						if !ok || !(callName(cl) == "pkg/dnsutils.ReadRawMsgFromTCP" || callName(cl) == relTransport+".readMsgUdp") {
							all = false
							break
						}
						altReads = append(altReads, cl)
					}
					if all {
						fromReader, readCall = true, altReads[0]
					}
				}
				c.check(fromReader, key+":buffer", instrPos(in), "the value handed over is the buffer returned by the frame reader", "the value handed to the waiter is not the buffer just read")
				// channel = lookup in queue keyed by uint32(Uint16(*buf)) (through the lookup helper)
				okKey := false
				var why string
				ch := st.Chan
				var lookupArg ssa.Value
				if cl, ok := ch.(*ssa.Call); ok {
					if sc := staticCallee(cl); sc != nil && len(cl.Call.Args) == 2 {
						// helper(dc, qid): returns queue[uint32(qid)]
						eachInstr(sc, func(x ssa.Instruction) {
							if lk, ok := x.(*ssa.Lookup); ok {
								if k, ok := loadedField(lk.X); ok && k == queueF {
									if cv, ok := lk.Index.(*ssa.Convert); ok && cv.X == ssa.Value(sc.Params[1]) {
										lookupArg = cl.Call.Args[1]
									}
								}
							}
						})
					}
				} else if lk, ok := ch.(*ssa.Lookup); ok {
					if k, ok := loadedField(lk.X); ok && k == queueF {
						if cv, ok := lk.Index.(*ssa.Convert); ok {
							lookupArg = cv.X
						}
					}
				}
				if lookupArg == nil {
					why = "the channel is not looked up in the waiter table by a 16-bit id"
				} else if u16, ok := lookupArg.(*ssa.Call); !ok || callName(u16) != binU16 {
					why = "the lookup id is " + exprStr(lookupArg) + ", not BigEndian.Uint16 of the reply"
				} else {
					arg := u16.Call.Args[1]
					if ld, ok := arg.(*ssa.UnOp); ok && ld.Op == token.MUL && ld.X == buf {
						okKey = true
					} else {
						why = "the id is read from " + exprStr(arg) + " instead of offset 0 of the buffer that is handed over"
					}
				}
				c.check(okKey, key+":id", instrPos(in), "waiter looked up by Uint16 at offset 0 of the handed-over buffer", why+": replies are delivered to the wrong waiter")
				// unclaimed buffers are released before the next read
				if readCall != nil {
					isRel := func(x ssa.Instruction) bool {
						ci, ok := x.(*ssa.Call)
						return ok && callName(ci) == poolRel && ci.Call.Args[0] == buf
					}
					cases, dflt, okd := decodeSelect(sel)
					_ = cases
					nextRead := func(x ssa.Instruction) bool {
						for _, a := range altReads {
							if x == ssa.Instruction(a) {
								return true
							}
						}
						return x == ssa.Instruction(readCall) || isReturn(x)
					}
					leak := false
					if okd && dflt != nil {
						if _, can := reachFromBlock(dflt, nextRead, isRel); can {
							leak = true
						}
					}
					// nil channel path (the channel value does not change: edges of other tests of the same value
					// that say "non-nil" are infeasible on it)
					nonNil := map[*ssa.BasicBlock]bool{}
					for _, r := range referrers(ch) {
						bo, ok := r.(*ssa.BinOp)
						if !ok || !isNilConst(bo.Y) {
							continue
						}
						for _, r2 := range referrers(bo) {
							if iff, ok := r2.(*ssa.If); ok {
								nonNil[succOnTruth(iff, bo.Op != token.EQL)] = true
							}
						}
					}
					relOrInfeasible := func(x ssa.Instruction) bool {
						return isRel(x) || (nonNil[x.Block()] && len(x.Block().Preds) == 1)
					}
					for _, r := range referrers(ch) {
						bo, ok := r.(*ssa.BinOp)
						if !ok || !isNilConst(bo.Y) {
							continue
						}
						for _, r2 := range referrers(bo) {
							if iff, ok := r2.(*ssa.If); ok {
								nilBlk := succOnTruth(iff, bo.Op == token.EQL)
								if _, can := reachFromBlock(nilBlk, nextRead, relOrInfeasible); can {
									leak = true
								}
							}
						}
					}
					c.check(!leak, key+":release-unclaimed", instrPos(in), "a reply nobody waits for is released, never delivered", "a reply with no (ready) waiter is neither delivered nor released")
				}
			}
		})
	}

	// ---------------------------------------------------------------- R3
	c.rule("R3", "exchangers do not modify the caller's query; returned replies carry the caller's original id", 8)
	exScope := p.funcsIn(relTransport, relDoh, relUpstream)
	c.see(exScope...)
	for _, f := range exScope {
		// functions taking the query as []byte (named q / m) — all []byte params of exported-contract exchangers
		var qParams []*ssa.Parameter
		n := f.Name()
		if !(strings.Contains(n, "xchange") || n == "writeQuery") {
			continue
		}
		for _, prm := range f.Params {
			if sl, ok := prm.Type().Underlying().(*types.Slice); ok {
				if b, ok := sl.Elem().Underlying().(*types.Basic); ok && b.Kind() == types.Uint8 {
					qParams = append(qParams, prm)
				}
			}
		}
		for _, q := range qParams {
			key := "query-immutable@" + funcName(f)
			derived := map[ssa.Value]bool{q: true}
			changed := true
			for changed {
				changed = false
				eachInstr(f, func(in ssa.Instruction) {
					if sl, ok := in.(*ssa.Slice); ok && derived[sl.X] && !derived[sl] {
						derived[sl] = true
						changed = true
					}
				})
			}
			bad := ""
			eachInstr(f, func(in ssa.Instruction) {
				switch x := in.(type) {
				case *ssa.Store:
					if ia, ok := x.Addr.(*ssa.IndexAddr); ok && derived[ia.X] {
						bad = "stores into an element of the caller's query at " + p.pos(instrPos(in))
					}
				case *ssa.Call:
					nn := callName(x)
					if strings.Contains(nn, "bigEndian).Put") && len(x.Call.Args) > 1 && derived[x.Call.Args[1]] {
						bad = "writes an integer into the caller's query at " + p.pos(instrPos(in))
					}
					if nn == "builtin:copy" && derived[x.Call.Args[0]] {
						bad = "copies into the caller's query at " + p.pos(instrPos(in))
					}
				}
			})
			c.check(bad == "", key, f.Pos(), "the caller's query bytes are never written", bad+": the contract is 'MUST NOT modify q' — concurrent users of the same bytes (forward's siblings, retries) see a foreign id")
		}
	}
	// id restore at every function that rewrites the id of an outgoing copy or dispatches by wire id
	type restoreSite struct{ rel, recv, name string }
	for _, rs := range []restoreSite{{relTransport, "TraditionalDnsConn", "exchange"}, {relTransport, "quicReservedExchanger", "ExchangeReserved"}, {relDoh, "Upstream", "ExchangeContext"}} {
		f := c.fn(rs.rel, rs.recv, rs.name)
		if f == nil {
			continue
		}
		var q *ssa.Parameter
		for _, prm := range f.Params {
			if _, ok := prm.Type().Underlying().(*types.Slice); ok {
				q = prm
			}
		}
		if q == nil {
			c.anchorMissing("query parameter of " + funcName(f))
			continue
		}
		// original-id expressions: Uint16(q) or Uint16(copy-of-q at the id offset) read before any Put on that copy
		isOrgID := func(v ssa.Value) (bool, string) {
			// follow local cells
			tr := p.newTracer()
			tr.throughCalls, tr.throughParams, tr.throughFields = false, false, false
			for _, r := range tr.origins(v) {
				cl, ok := r.(*ssa.Call)
				if !ok || callName(cl) != binU16 {
					return false, exprStr(r)
				}
				src := cl.Call.Args[1]
				if src == ssa.Value(q) {
					continue
				}
				// slice/load of a buffer produced by a copy helper of q
				base := src
				for {
					if sl, ok := base.(*ssa.Slice); ok {
						base = sl.X
						continue
					}
					if u, ok := base.(*ssa.UnOp); ok && u.Op == token.MUL {
						base = u.X
						continue
					}
					break
				}
				okCopy := false
				if ex, ok := base.(*ssa.Extract); ok {
					base = ex.Tuple
				}
				if cc, ok := base.(*ssa.Call); ok {
					nn := callName(cc)
					if (nn == relTransport+".copyMsgWithLenHdr" || nn == relTransport+".copyMsg") && cc.Call.Args[0] == ssa.Value(q) {
						// the read must precede every Put into that buffer
						okCopy = true
						eachInstr(f, func(x ssa.Instruction) {
							if pc, ok := x.(*ssa.Call); ok && callName(pc) == binPut16 && instrDominates(pc, cl) {
								b2 := pc.Call.Args[1]
								if strings.Contains(exprStr(b2), exprStr(cc)) {
									okCopy = false
								}
							}
						})
					}
				}
				if !okCopy {
					return false, exprStr(src)
				}
			}
			return true, ""
		}
		n := 0
		for _, r := range returnsOf(f) {
			rv := returnedValues(r)[0]
			if isNilConst(rv) {
				continue
			}
			key := "id-restored@" + funcName(f)
			n++
			// a PutUint16(*rv, id) dominating the return, guarded at most by rv != nil
			good, why := false, "no PutUint16 into the returned buffer on this path"
			eachInstr(f, func(x ssa.Instruction) {
				pc, ok := x.(*ssa.Call)
				if !ok || callName(pc) != binPut16 {
					return
				}
				ld, ok := pc.Call.Args[1].(*ssa.UnOp)
				if !ok || ld.Op != token.MUL || !sameLoadedPlace(ld.X, rv) {
					return
				}
				if !instrDominates(pc, r) {
					// allowed: guarded only by rv != nil
					onlyNil := true
					covers := false
					for _, g := range guardsOfInstr(pc) {
						if cm, ok := g.asCmp(); ok && sameLoadedPlace(cm.X, rv) && isNilConst(cm.Y) && cm.Op == token.NEQ {
							covers = g.If.Block().Dominates(r.Block())
							continue
						}
						if !g.If.Block().Dominates(r.Block()) || true {
							// other guards must also guard the return
							found := false
							for _, g2 := range guardsOfInstr(r) {
								if g2.If == g.If && g2.Truth == g.Truth {
									found = true
								}
							}
							if !found {
								onlyNil = false
							}
						}
					}
					if !(onlyNil && covers) {
						return
					}
				}
				if ok2, w := isOrgID(pc.Call.Args[2]); ok2 {
					good = true
				} else {
					why = "the id written back is " + w + ", not the caller's original id"
				}
			})
			// ... or the same two statements in a helper: a call h(.., rv, .., q, ..) that dominates the return, where h
			// writes Uint16(<its q parameter>) at offset 0 of <its buffer parameter> on every path
			if !good {
				eachInstr(f, func(x ssa.Instruction) {
					hc, ok := x.(*ssa.Call)
					if !ok || !instrDominates(hc, r) {
						return
					}
					bi, qi := idRestorerParams(staticCallee(hc))
					if bi < 0 || bi >= len(hc.Call.Args) || qi >= len(hc.Call.Args) {
						return
					}
					if hc.Call.Args[bi] == rv && hc.Call.Args[qi] == ssa.Value(q) {
						good = true
					}
				})
			}
			// ... or the reply comes out of a reply poll helper that restores the id of the query it is handed
			if !good {
				if hc, sum := pollHelperCall(rv); hc != nil && sum.restores && sum.qIdx >= 0 && len(hc.Call.Args) > sum.qIdx && hc.Call.Args[sum.qIdx] == ssa.Value(q) {
					good = true
				}
			}
			c.check(good, key, instrPos(r), "returned reply gets the caller's original id", why+": the caller receives a reply with the wire id (0 for DoH/DoQ) instead of its own")
		}
		if n == 0 {
			c.fail("id-restored@"+funcName(f), f.Pos(), "no path returns a reply")
		}
	}

	// ---------------------------------------------------------------- R8
	c.rule("R8", "an exchange returns only a buffer it received on its own reply channel; every exchange-shaped function of the upstream packages is covered by a named rule", 14)
	checkExchangeFunctionsCovered(c)
	for _, rs := range []restoreSite{{relTransport, "TraditionalDnsConn", "exchange"}, {relTransport, "reusableConn", "exchange"}, {relTransport, "quicReservedExchanger", "ExchangeReserved"}, {relDoh, "Upstream", "ExchangeContext"}} {
		f := c.fn(rs.rel, rs.recv, rs.name)
		if f == nil {
			continue
		}
		good, n := true, 0
		why := ""
		for _, r := range returnsOf(f) {
			rv := returnedValues(r)[0]
			if isNilConst(rv) {
				continue
			}
			n++
			// received directly, or a field of a received struct
			src := rv
			if ld, ok := src.(*ssa.UnOp); ok && ld.Op == token.MUL {
				if fa, ok := ld.X.(*ssa.FieldAddr); ok {
					if al, ok := fa.X.(*ssa.Alloc); ok {
						for _, rr := range referrers(al) {
							if st, ok := rr.(*ssa.Store); ok && st.Addr == ssa.Value(al) {
								src = st.Val
							}
						}
					}
				}
			}
			if fl, ok := src.(*ssa.Field); ok {
				src = fl.X
			}
			if _, ok := chanOfRecv(src); !ok {
				if hc, _ := pollHelperCall(src); hc == nil {
					good, why = false, exprStr(rv)
				}
			}
		}
		c.check(good && n > 0, "returns-received-reply@"+funcName(f), f.Pos(), "every non-nil result was received from the call's reply channel",
			"the exchange can return "+why+", which was not received on its own reply channel")
	}

	// a reply buffer belongs to exactly one caller (each caller stamps its own id into it and releases it): the
	// exchangers never pass replies through a result-sharing or untyped container (singleflight, sync.Map, atomic.Value)
	{
		carriesBuf := func(t types.Type) bool {
			isBufPtr := func(t types.Type) bool {
				pt, ok := t.Underlying().(*types.Pointer)
				if !ok {
					return false
				}
				sl, ok := pt.Elem().Underlying().(*types.Slice)
				if !ok {
					return false
				}
				b, ok := sl.Elem().Underlying().(*types.Basic)
				return ok && b.Kind() == types.Uint8
			}
			if isBufPtr(t) {
				return true
			}
			if pt, ok := t.Underlying().(*types.Pointer); ok {
				t = pt.Elem()
			}
			if st, ok := t.Underlying().(*types.Struct); ok {
				for i := 0; i < st.NumFields(); i++ {
					if isBufPtr(st.Field(i).Type()) {
						return true
					}
				}
			}
			return false
		}
		isSF := func(in ssa.Instruction) bool {
			ci, ok := in.(ssa.CallInstruction)
			return ok && strings.HasPrefix(callName(ci), "(*golang.org/x/sync/singleflight.Group).Do")
		}
		bad := ""
		for _, f := range p.funcsIn(relTransport, relDoh, relUpstream) {
			eachInstr(f, func(in ssa.Instruction) {
				if isSF(in) {
					bad = p.pos(instrPos(in)) + ": exchanges are coalesced with singleflight"
				}
				if ta, ok := in.(*ssa.TypeAssert); ok && carriesBuf(ta.AssertedType) {
					bad = p.pos(instrPos(in)) + ": a reply buffer is taken out of an untyped container (" + ta.AssertedType.String() + ")"
				}
			})
		}
		// the matcher is alive: the cache plugin's refresh is the one user of singleflight in the tree
		seenSF := false
		for _, f := range p.funcsIn(relCachePlugin) {
			eachInstr(f, func(in ssa.Instruction) {
				if isSF(in) {
					seenSF = true
				}
			})
		}
		if !seenSF {
			c.anchorMissing("singleflight call in the cache plugin (positive example of the shared-result matcher)")
		}
		c.check(bad == "", "reply-buffer-not-shared", token.NoPos, "no exchanger hands one reply buffer to several callers (no singleflight, no untyped container of buffers in the upstream packages)",
			bad+": concurrent callers receive the same buffer, each stamps its own id into it — a caller ends up holding another caller's id — and the buffer is released several times")
	}

	// ---------------------------------------------------------------- R4
	c.rule("R4", "the id written to the wire is the registered id, at the id offset of the framing; no 16-bit header write in the upstream packages outside the functions the id rules cover", 20)
	checkHeaderWritersCovered(c)
	if inserter != nil {
		// inserter returns the inserted id as result 0
		okRet := false
		for _, r := range returnsOf(inserter) {
			rv := returnedValues(r)
			if len(rv) > 0 && insertKeyBase != nil && (rv[0] == insertKeyBase || sameCellValue(insertKeyBase, rv[0])) {
				okRet = true
			}
		}
		c.check(okRet, "registered-id-returned@"+funcName(inserter), inserter.Pos(), "the allocator returns exactly the id it inserted", "the id returned by the allocator is not the key it inserted")
	}
	if wq := c.fn(relTransport, "TraditionalDnsConn", "writeQuery"); wq != nil && len(wq.Params) == 3 {
		idParam := wq.Params[2]
		n := 0
		eachInstr(wq, func(in ssa.Instruction) {
			pc, ok := in.(*ssa.Call)
			if !ok || callName(pc) != binPut16 {
				return
			}
			n++
			key := "wire-id@" + funcName(wq)
			buf := pc.Call.Args[1]
			off := int64(0)
			// merged form: one rewrite behind the framing branch, `PutUint16((*payload)[idOff:], id)` with payload and
			// idOff chosen together (two phis of one block): checked edge by edge
			if sl, ok := buf.(*ssa.Slice); ok {
				if offPhi, isPhi := sl.Low.(*ssa.Phi); isPhi {
					if ld, isLd := sl.X.(*ssa.UnOp); isLd {
						if bufPhi, isBP := ld.X.(*ssa.Phi); isBP && bufPhi.Block() == offPhi.Block() && len(bufPhi.Edges) == len(offPhi.Edges) {
							allOK := pc.Call.Args[2] == ssa.Value(idParam)
							for i := range bufPhi.Edges {
								e := bufPhi.Edges[i]
								if ex, ok := e.(*ssa.Extract); ok {
									e = ex.Tuple
								}
								cc, ok := e.(*ssa.Call)
								o, isC := constInt(offPhi.Edges[i])
								if !ok || !isC {
									allOK = false
									continue
								}
								switch callName(cc) {
								case relTransport + ".copyMsgWithLenHdr":
									if o != 2 {
										allOK = false
									}
								case relTransport + ".copyMsg":
									if o != 0 {
										allOK = false
									}
								default:
									allOK = false
								}
							}
							n += len(bufPhi.Edges) - 1
							for i := 1; i < len(bufPhi.Edges); i++ {
								c.check(allOK, fmt.Sprintf("%s#%d", key, i), instrPos(in), "assigned id written at the id offset chosen together with the framing (one rewrite for both framings)", "the merged id rewrite does not put the assigned id at the id offset of each framing")
							}
							c.check(allOK, key, instrPos(in), "assigned id written at the id offset chosen together with the framing", "the merged id rewrite does not put the assigned id at offset 2 of the length-prefixed copy and offset 0 of the plain copy: the wire id differs from the registered id")
							return
						}
					}
				}
			}
			if sl, ok := buf.(*ssa.Slice); ok {
				if sl.Low != nil {
					off, _ = constInt(sl.Low)
				}
				buf = sl.X
			}
			var src string
			if ld, ok := buf.(*ssa.UnOp); ok {
				if ex, ok := ld.X.(*ssa.Extract); ok {
					if cc, ok := ex.Tuple.(*ssa.Call); ok {
						src = callName(cc)
					}
				}
				if cc, ok := ld.X.(*ssa.Call); ok {
					src = callName(cc)
				}
			}
			wantOff := int64(-1)
			switch src {
			case relTransport + ".copyMsgWithLenHdr":
				wantOff = 2
			case relTransport + ".copyMsg":
				wantOff = 0
			}
			c.check(pc.Call.Args[2] == ssa.Value(idParam) && off == wantOff, key, instrPos(in),
				fmt.Sprintf("assigned id written at offset %d of the %s buffer", off, strings.TrimPrefix(src, relTransport+".")),
				fmt.Sprintf("writes %s at offset %d of a buffer from %s (expected the assigned id at offset %d): the wire id differs from the registered id", exprStr(pc.Call.Args[2]), off, src, wantOff))
		})
		if n < 2 {
			c.fail("wire-id@"+funcName(wq), wq.Pos(), "expected an id rewrite for both framings, found %d", n)
		}
		// call sites pass the registered id
		for _, f := range fns {
			eachInstr(f, func(in ssa.Instruction) {
				ci, ok := in.(*ssa.Call)
				if !ok || staticCallee(ci) != wq {
					return
				}
				good := false
				if ex, ok := ci.Call.Args[2].(*ssa.Extract); ok && ex.Index == 0 {
					if cc, ok := ex.Tuple.(*ssa.Call); ok && staticCallee(cc) == inserter {
						good = true
					}
				}
				c.check(good, "wire-id-arg@"+funcName(f), instrPos(in), "writeQuery gets the id returned by the allocator", "writeQuery is called with "+exprStr(ci.Call.Args[2])+", not the id registered for this call")
			})
		}
		// every Write on the connection of a pipelined/datagram connection object goes through writeQuery
		// (a query written around it carries the caller's id, not the registered wire id)
		for _, f := range fns {
			fn := f
			eachInstr(f, func(in ssa.Instruction) {
				ci, ok := in.(*ssa.Call)
				if !ok || !ci.Call.IsInvoke() || ci.Call.Method.Name() != "Write" {
					return
				}
				if k, ok := loadedField(ci.Call.Value); !ok || k != T+"TraditionalDnsConn.c" {
					return
				}
				c.check(fn == wq, "write-via-writeQuery@"+funcName(fn), instrPos(in), "the connection is written only inside writeQuery", "the connection is written outside writeQuery ("+funcName(fn)+"): the bytes sent carry the caller's own id instead of the registered wire id, so the reply is dispatched to whichever query owns that number")
			})
		}
	}

	// ---------------------------------------------------------------- R5
	c.rule("R5", "the waiter is removed from the table on every exit of the waiting call", 1)
	if inserter != nil {
		deleters := map[*ssa.Function]bool{}
		for _, w := range p.whoWrites().byField[queueF] {
			if w.Kind == "delete" {
				deleters[w.Fn] = true
			}
		}
		for _, f := range fns {
			eachInstr(f, func(in ssa.Instruction) {
				ci, ok := in.(*ssa.Call)
				if !ok || staticCallee(ci) != inserter {
					return
				}
				var idV, chV ssa.Value
				for _, r := range referrers(ci) {
					if ex, ok := r.(*ssa.Extract); ok {
						if ex.Index == 0 {
							idV = ex
						} else {
							chV = ex
						}
					}
				}
				key := "waiter-removed@" + funcName(f)
				isDel := func(x ssa.Instruction) bool {
					cc, ok := x.(ssa.CallInstruction)
					if !ok {
						return false
					}
					sc := staticCallee(cc)
					if sc == nil || !deleters[sc] || len(cc.Common().Args) < 2 || cc.Common().Args[1] != idV {
						return false
					}
					// deleteQueueC(id, ch): the channel handed over is the one registered with that id (the callee removes the
					// entry only if it still holds that channel, D13)
					return len(cc.Common().Args) == 2 || (len(cc.Common().Args) == 3 && cc.Common().Args[2] == chV)
				}
				var offending ssa.Instruction
				for _, r := range returnsOf(f) {
					if _, reach := reachAvoiding(ci, func(x ssa.Instruction) bool { return x == ssa.Instruction(r) }, nil); !reach {
						continue
					}
					// no registration on the chV == nil path
					skip := false
					for _, g := range guardsOfInstr(r) {
						if cm, ok := g.asCmp(); ok && cm.X == chV && isNilConst(cm.Y) && cm.Op == token.EQL {
							skip = true
						}
					}
					if skip {
						continue
					}
					covered := false
					eachInstr(f, func(x ssa.Instruction) {
						if isDel(x) && instrDominates(x, r) {
							covered = true
						}
					})
					if !covered {
						offending = r
					}
				}
				if offending == nil {
					c.ok(key, instrPos(in), "a delete of the registered id (deferred or direct) dominates every return after registration")
				} else {
					c.fail(key, instrPos(offending), "this return leaves the wire id registered: the table fills up and a late reply is delivered to whoever reuses the id")
				}
			})
		}
	}

	// ---------------------------------------------------------------- R6
	c.rule("R6", "an idle connection is handed out at most once and re-enters the idle set only after its reply was read or unused", 4)
	checkIdleExclusive(c, fns, lf)

	// ---------------------------------------------------------------- R7
	c.rule("R7", "pooled buffers: no use, send, store, return or second release after ReleaseBuf; deferred-release buffers do not escape; a buffer that was sent is not released by the sender", 26)
	checkBufferTypestate(c, p.Funcs)
	checkNoReleaseAfterHandover(c, p.funcsIn(relTransport, relDoh, relUpstream))

	// ---------------------------------------------------------------- R9
	c.rule("R9", "the reply channel registered for a query is made by that registration, never recycled or shared", 2)
	checkFreshReplyChan(c, lf)

	// ---------------------------------------------------------------- R12
	c.rule("R12", "a non-pipelined connection matches replies to queries by a per-connection wire id (a surplus reply read while idle is never delivered to the next caller)", 3)
	checkReuseIdMatch(c, lf)

	// ---------------------------------------------------------------- R10
	c.rule("R10", "the wire-id counter is a uint16 that advances by one for every id it hands out (an id just released is not handed out again at once)", 2)
	{
		nq := T + "TraditionalDnsConn.nextQid"
		ws := p.whoWrites().byField[nq]
		if len(ws) == 0 {
			c.anchorMissing("writes of TraditionalDnsConn.nextQid")
		}
		// type
		is16 := false
		if n := p.Named(relTransport, "TraditionalDnsConn"); n != nil {
			if st := structOf(n); st != nil {
				for i := 0; i < st.NumFields(); i++ {
					if st.Field(i).Name() == "nextQid" {
						if b, ok := st.Field(i).Type().Underlying().(*types.Basic); ok && b.Kind() == types.Uint16 {
							is16 = true
						}
					}
				}
			}
		}
		c.check(is16, "counter-type", 0, "nextQid is a uint16", "nextQid is not a uint16: the counter and the 16-bit wire id disagree")
		for _, w := range ws {
			key := "counter-advance@" + funcName(w.Fn)
			// value = load(nextQid) + 1, and that load is the one whose value becomes the candidate id: the store follows
			// the load unconditionally (same block)
			good := false
			why := "the counter is not advanced by exactly one from its loaded value"
			if bo, ok := w.Val.(*ssa.BinOp); ok && bo.Op == token.ADD {
				if n, ok := constInt(bo.Y); ok && n == 1 {
					if ld, ok := bo.X.(*ssa.UnOp); ok && ld.Op == token.MUL {
						if k, _ := fieldKey(ld.X); k == nq {
							if ld.Block() == w.Instr.Block() {
								good = true
							} else {
								why = "the counter is advanced only on some paths after it was read (e.g. only when the id is still in use): an id that was just released is handed out again at once, and a late reply to the query that owned it is delivered to the new owner"
							}
						}
					}
				}
			}
			c.check(good && w.Fn == inserter, key, instrPos(w.Instr), "nextQid = loaded nextQid + 1 right after the load, in the allocator", why)
		}
		// every id registered in the waiter table was handed out by the counter: the key of every insert is a value
		// loaded from nextQid (an id taken from elsewhere — the caller's own id, a fixed id — can be one that was
		// released a moment ago, whose late reply then goes to the new owner)
		for _, w := range p.whoWrites().byField[queueF] {
			if w.Kind != "mapupdate" {
				continue
			}
			mu := w.Instr.(*ssa.MapUpdate)
			kv := mu.Key
			if cv, ok := kv.(*ssa.Convert); ok {
				kv = cv.X
			}
			tr := p.newTracer()
			tr.throughCalls, tr.throughParams, tr.throughFields = false, false, false
			fromCounter := true
			src := ""
			os := tr.origins(kv)
			for _, o := range os {
				if k, ok := loadedField(o); !ok || k != nq {
					fromCounter, src = false, exprStr(o)
				}
			}
			c.check(fromCounter && len(os) > 0, "registered-id-from-counter@"+funcName(w.Fn), instrPos(mu), "the registered id was read from the counter",
				"the id registered in the waiter table comes from "+src+", not from the nextQid counter: it can be an id that an abandoned query released a moment ago, and that query's late reply is then delivered to the new owner")
		}
		// every load of the counter in the allocator is followed by the advance in its block
		if inserter != nil {
			eachInstr(inserter, func(in ssa.Instruction) {
				ld, ok := in.(*ssa.UnOp)
				if !ok || ld.Op != token.MUL {
					return
				}
				if k, _ := fieldKey(ld.X); k != nq {
					return
				}
				adv := false
				for _, x := range ld.Block().Instrs {
					if st, ok := x.(*ssa.Store); ok {
						if k, _ := fieldKey(st.Addr); k == nq {
							adv = true
						}
					}
				}
				c.check(adv, "counter-load-advances@"+funcName(inserter), instrPos(in), "each read of the counter is followed by its advance", "the counter is read without being advanced in the same step")
			})
		}
	}

	// ---------------------------------------------------------------- R11
	c.rule("R11", "state an exchange builds per call is private to the call: the DoH request URL written by an exchange is a fresh allocation made in that call; the DoH body is read whole", 2)
	checkDohBodyReadWhole(c)
	if ex := c.fn(relDoh, "Upstream", "exchange"); ex != nil {
		c.see(ex)
		n := 0
		eachInstr(ex, func(in ssa.Instruction) {
			st, ok := in.(*ssa.Store)
			if !ok {
				return
			}
			fa, ok := st.Addr.(*ssa.FieldAddr)
			if !ok {
				return
			}
			if k, _ := fieldKey(fa); !strings.HasPrefix(k, "net/url.URL.") {
				return
			}
			n++
			key := "private-url@" + funcName(ex) + ":" + fieldTail(func() string { k, _ := fieldKey(fa); return k }())
			// base pointer: a fresh Alloc, or a load of Request.URL that a dominating store filled with a fresh Alloc
			fresh := false
			switch b := fa.X.(type) {
			case *ssa.Alloc:
				fresh = true
			case *ssa.UnOp:
				if k, _ := fieldKey(b.X); k == "net/http.Request.URL" {
					eachInstr(ex, func(y ssa.Instruction) {
						s2, ok := y.(*ssa.Store)
						if !ok {
							return
						}
						if k2, _ := fieldKey(s2.Addr); k2 != "net/http.Request.URL" {
							return
						}
						if _, isAlloc := s2.Val.(*ssa.Alloc); isAlloc && instrDominates(s2, in) {
							fresh = true
						}
					})
				}
			}
			c.check(fresh, key, instrPos(in), "the URL written is a fresh allocation of this call", "the exchange writes the query into a URL object that is shared with the request template (Request.WithContext is a shallow copy): concurrent exchanges overwrite each other's query string and receive each other's replies")
		})
		if n == 0 {
			c.anchorMissing("store of the DoH query string into the request URL")
		}
	}
}

// checkIdleExclusive implements C01-R6 / C09-R7.
func checkIdleExclusive(c *Ctx, fns []*ssa.Function, lf *lockFacts) {
	p := c.P
	T := relTransport + "."
	idleF := T + "ReuseConnTransport.idleConns"
	// (a) taking: the function that returns a key of idleConns deletes it first, under t.m
	for _, f := range fns {
		eachInstr(f, func(in ssa.Instruction) {
			rg, ok := in.(*ssa.Range)
			if !ok {
				return
			}
			if k, ok := loadedField(rg.X); !ok || k != idleF {
				return
			}
			for _, r := range returnsOf(f) {
				rv := returnedValues(r)
				if len(rv) == 0 || isNilConst(rv[0]) {
					continue
				}
				ex, ok := rv[0].(*ssa.Extract)
				if !ok {
					continue
				}
				if _, ok := ex.Tuple.(*ssa.Next); !ok {
					continue
				}
				key := "take-idle@" + funcName(f)
				deleted := false
				eachInstr(f, func(x ssa.Instruction) {
					if ci, ok := isCall(x, "builtin:delete"); ok {
						a := ci.Common().Args
						if k, ok := loadedField(a[0]); ok && k == idleF && a[1] == rv[0] && instrDominates(x, r) && lf.held(x)[T+"ReuseConnTransport.m"] == lockW {
							deleted = true
						}
					}
				})
				c.check(deleted, key, instrPos(r), "the connection is removed from the idle set (under the lock) before it is handed out",
					"an idle connection is handed out without being removed from the idle set: two callers share one non-pipelined connection and receive each other's replies")
			}
		})
	}
	// (b) entering: every MapUpdate on idleConns and every call of a function doing one must be justified
	setters := map[*ssa.Function]bool{}
	for _, w := range p.whoWrites().byField[idleF] {
		if w.Kind == "mapupdate" {
			setters[w.Fn] = true
		}
	}
	if len(setters) == 0 {
		c.anchorMissing("insert into ReuseConnTransport.idleConns")
	}
	justified := func(site ssa.Instruction, conn ssa.Value) (bool, string) {
		f := site.Parent()
		// (ii) a connection created here and never used
		if cl, ok := conn.(*ssa.Call); ok && strings.HasSuffix(callName(cl), ".newReusableConn") {
			return true, "fresh connection that served nobody"
		}
		tr := p.newTracer()
		tr.throughCalls, tr.throughParams, tr.throughFields = false, false, false
		rs := tr.origins(conn)
		allFresh := len(rs) > 0
		for _, r := range rs {
			if isNilConst(r) {
				continue
			}
			if cl, ok := r.(*ssa.Call); !ok || !strings.HasSuffix(callName(cl), ".newReusableConn") {
				allFresh = false
			}
		}
		if allFresh {
			return true, "fresh connection that served nobody"
		}
		// (i) in the reader: after a successful frame read and after clearing the waiter slot
		readOK, cleared := false, false
		eachInstr(f, func(x ssa.Instruction) {
			if ci, ok := x.(*ssa.Call); ok && callName(ci) == "pkg/dnsutils.ReadRawMsgFromTCP" && instrDominates(x, site) {
				// err == nil guard
				for _, g := range guardsOfInstr(site) {
					if cm, ok := g.asCmp(); ok && isNilConst(cm.Y) && cm.Op == token.EQL {
						if ex, ok := cm.X.(*ssa.Extract); ok && ex.Tuple == ssa.Value(ci) {
							readOK = true
						}
					}
				}
			}
			if st, ok := x.(*ssa.Store); ok && isNilConst(st.Val) && instrDominates(x, site) {
				if k, ok := fieldKey(st.Addr); ok && k == T+"reusableConn.waitingResp" {
					cleared = true
				}
			}
		})
		// ... and the reply that was read completes a query: the slot that was cleared held a waiter (a reply nobody
		// waits for says nothing about a query a caller is about to send on this connection)
		hadWaiter := false
		for _, g := range guardsOfInstr(site) {
			if cm, ok := g.asCmp(); ok && isNilConst(cm.Y) && cm.Op == token.NEQ {
				if waiterOrNil(cm.X, T+"reusableConn.waitingResp", 0) {
					hadWaiter = true
				}
			}
		}
		if readOK && cleared && hadWaiter {
			return true, "after the reply of its single query was read and the waiter slot cleared"
		}
		return false, fmt.Sprintf("(reply read on this path: %v, waiter slot cleared: %v, the reply had a waiter: %v)", readOK, cleared, hadWaiter)
	}
	for _, f := range fns {
		eachInstr(f, func(in ssa.Instruction) {
			ci, ok := in.(*ssa.Call)
			if !ok {
				return
			}
			sc := staticCallee(ci)
			if sc == nil || !setters[sc] || len(ci.Call.Args) < 2 {
				return
			}
			key := "set-idle@" + funcName(f)
			ok2, why := justified(in, ci.Call.Args[1])
			if ok2 {
				c.ok(key, instrPos(in), "connection becomes idle %s", why)
			} else if c.Prop != "C09" {
				// Since D21 replies are matched to queries by a per-connection wire id (C01-R12 / C17-R8): a late reply
				// of an abandoned query that reaches a connection handed out early finds another id registered, the
				// connection is closed and the new query is retried — whose reply a caller gets no longer depends on
				// this. "At most one unanswered query per connection" is C09's clause and stays an obligation of C09-R7.
				c.ok(key, instrPos(in), "early idle hand-back: harmless for this property (replies are matched by wire id, R12); owned by C09-R7")
			} else {
				c.fail(key, instrPos(in), "a connection is put back into the idle set while its query may still be unanswered %s: the next caller gets this connection and receives the previous caller's late reply", why)
			}
		})
	}
	// (c) the single waiter slot: installed only when empty, under c.m
	for _, w := range p.whoWrites().byField[T+"reusableConn.waitingResp"] {
		if w.Kind != "store" || w.Val == nil || isNilConst(w.Val) {
			continue
		}
		if fa, ok := w.Instr.(*ssa.Store).Addr.(*ssa.FieldAddr); ok {
			if _, isAlloc := fa.X.(*ssa.Alloc); isAlloc {
				continue
			}
		}
		g := false
		for _, gd := range guardsOfInstr(w.Instr) {
			if cm, ok := gd.asCmp(); ok && isNilConst(cm.Y) && cm.Op == token.EQL {
				if k, ok := loadedField(cm.X); ok && k == T+"reusableConn.waitingResp" {
					g = true
				}
			}
		}
		c.check(g && lf.held(w.Instr)[T+"reusableConn.m"] == lockW, "install-waiter@"+funcName(w.Fn), instrPos(w.Instr),
			"the waiter slot is installed only when empty, under the connection lock", "the single waiter slot is overwritten without checking that it is empty (under c.m): two callers share one connection")
	}
	checkSurplusReplyCloses(c)
}

// checkSurplusReplyCloses (C01-R6 / C09-R7 / C17-R6): on a non-pipelined connection a reply that no caller waits for
// closes the connection (the property's scope: "a surplus reply while idle must close the connection").
func checkSurplusReplyCloses(c *Ctx) {
	T := relTransport + "."
	rl := c.fn(relTransport, "reusableConn", "readLoop")
	if rl == nil {
		return
	}
	n := 0
	// the value the reply is finally sent on: the waiter that was taken out of the slot — or nil when the reply is not
	// the one that waiter waits for (id mismatch, D21). The decision "nobody waits for this reply" is the test of THAT value.
	var sendChan ssa.Value
	eachInstr(rl, func(in ssa.Instruction) {
		if sel, ok := in.(*ssa.Select); ok {
			for _, st := range sel.States {
				if st.Dir == types.SendOnly && waiterOrNil(st.Chan, T+"reusableConn.waitingResp", 0) {
					sendChan = st.Chan
				}
			}
		}
	})
	eachInstr(rl, func(in ssa.Instruction) {
		iff, ok := in.(*ssa.If)
		if !ok {
			return
		}
		for _, truth := range []bool{true, false} {
			g := guard{Cond: iff.Cond, Truth: truth, If: iff}
			cm, ok := g.asCmp()
			if !ok || cm.Op != token.EQL || !isNilConst(cm.Y) {
				continue
			}
			if !waiterOrNil(cm.X, T+"reusableConn.waitingResp", 0) || (sendChan != nil && cm.X != sendChan) {
				continue
			}
			n++
			nilBlk := succOnTruth(iff, truth)
			isClose := func(x ssa.Instruction) bool {
				ci, ok := x.(*ssa.Call)
				return ok && strings.HasSuffix(callName(ci), ".closeWithErr")
			}
			_, leak := reachFromBlock(nilBlk, func(x ssa.Instruction) bool {
				if isReturn(x) {
					return true
				}
				// reading on is also a way out of this branch
				ci, ok := x.(*ssa.Call)
				return ok && callName(ci) == "pkg/dnsutils.ReadRawMsgFromTCP"
			}, isClose)
			if leak {
				// the nil test may be one conjunct of a named boolean (`expected := waiter != nil && id == registered`): the
				// CFG joins both outcomes before the decision. Then it is enough that everything that keeps the
				// connection in service — marking it idle, handing the reply over — runs only under "waiter != nil"
				// (guards derived through the boolean count).
				keep, guarded := 0, true
				eachInstr(rl, func(x ssa.Instruction) {
					uses := false
					if cl, ok := x.(*ssa.Call); ok && strings.HasSuffix(callName(cl), ".setIdle") {
						uses = true
					}
					if sel, ok := x.(*ssa.Select); ok {
						for _, st := range sel.States {
							if st.Dir == types.SendOnly {
								uses = true
							}
						}
					}
					if !uses {
						return
					}
					keep++
					okG := false
					for _, g2 := range guardsOfInstr(x) {
						if c2, ok := g2.asCmp(); ok && c2.Op == token.NEQ && isNilConst(c2.Y) && c2.X == cm.X {
							okG = true
						}
					}
					if !okG {
						guarded = false
					}
				})
				if keep > 0 && guarded {
					leak = false
				}
			}
			c.check(!leak, "surplus-reply-closes@readLoop", instrPos(iff), "a reply nobody waits for closes the connection", "a reply that no caller waits for is dropped and the connection stays in service: the reader may have taken the reply away from a caller that is just about to register, or the stream is out of step — the next caller on this connection gets another query's reply")
		}
	})
	if n == 0 {
		c.anchorMissing("test of the waiter slot in reusableConn.readLoop")
	}
}

// checkBufferTypestate implements C01-R7 over the given functions.
func checkBufferTypestate(c *Ctx, funcs []*ssa.Function) {
	p := c.P
	// consumers: mosdns functions that release one of their own parameters; a call of one is a release of the argument
	consumes := map[*ssa.Function]map[int]bool{}
	for _, f := range p.Funcs {
		g := f
		eachInstr(f, func(in ssa.Instruction) {
			ci, ok := in.(ssa.CallInstruction)
			if !ok || callName(ci) != poolRel {
				return
			}
			for i, pa := range g.Params {
				if ci.Common().Args[0] == ssa.Value(pa) {
					if consumes[g] == nil {
						consumes[g] = map[int]bool{}
					}
					consumes[g][i] = true
				}
			}
		})
	}
	releasedArg := func(ci ssa.CallInstruction) (ssa.Value, string, bool) {
		if callName(ci) == poolRel {
			return ci.Common().Args[0], "", true
		}
		if _, isGo := ci.(*ssa.Go); isGo {
			return nil, "", false
		}
		if sc := staticCallee(ci); sc != nil {
			for i := range consumes[sc] {
				if i < len(ci.Common().Args) {
					return ci.Common().Args[i], " by " + funcName(sc), true
				}
			}
		}
		return nil, "", false
	}
	for _, f := range funcs {
		fn := f
		eachInstr(f, func(in ssa.Instruction) {
			ci, ok := in.(ssa.CallInstruction)
			if !ok {
				return
			}
			x, via, ok := releasedArg(ci)
			if !ok {
				return
			}
			c.see(fn)
			// derived values: loads and slices computed from x
			derived := map[ssa.Value]bool{x: true}
			changed := true
			for changed {
				changed = false
				eachInstr(fn, func(y ssa.Instruction) {
					v, isV := y.(ssa.Value)
					if !isV || derived[v] {
						return
					}
					switch z := y.(type) {
					case *ssa.UnOp:
						if z.Op == token.MUL && derived[z.X] {
							derived[v] = true
							changed = true
						}
					case *ssa.Slice:
						if derived[z.X] {
							derived[v] = true
							changed = true
						}
					}
				})
			}
			uses := func(y ssa.Instruction) bool {
				if y == in {
					return false
				}
				for _, op := range y.Operands(nil) {
					if *op != nil && derived[*op] {
						// the instruction defining a derived value from another derived value is a use too
						return true
					}
				}
				return false
			}
			if _, isDefer := in.(*ssa.Defer); isDefer {
				key := "deferred-release@" + funcName(fn)
				// must not escape: returned, sent, stored outside locals, captured by a goroutine
				bad := ""
				eachInstrDeep(fn, func(g *ssa.Function, y ssa.Instruction) {
					if g != fn {
						return
					}
					switch z := y.(type) {
					case *ssa.Return:
						for _, rv := range returnedValues(z) {
							if derived[rv] {
								bad = "is returned at " + p.pos(instrPos(y))
							}
						}
					case *ssa.Send:
						if derived[z.X] {
							bad = "is sent on a channel at " + p.pos(instrPos(y))
						}
					case *ssa.Store:
						if derived[z.Val] {
							if _, local := z.Addr.(*ssa.Alloc); !local {
								bad = "is stored at " + p.pos(instrPos(y))
							} else if al := z.Addr.(*ssa.Alloc); al.Heap {
								// captured variable: does a goroutine closure use it?
								for _, r := range referrers(al) {
									if mc, ok := r.(*ssa.MakeClosure); ok {
										for _, r2 := range referrers(mc) {
											if _, isGo := r2.(*ssa.Go); isGo {
												bad = "is captured by a goroutine started at " + p.pos(instrPos(r2))
											}
										}
									}
								}
							}
						}
					case *ssa.MakeClosure:
						for _, b := range z.Bindings {
							if derived[b] {
								for _, r2 := range referrers(z) {
									if _, isGo := r2.(*ssa.Go); isGo {
										bad = "is captured by a goroutine started at " + p.pos(instrPos(r2))
									}
								}
							}
						}
					case *ssa.Go:
						for _, a := range z.Call.Args {
							if derived[a] {
								bad = "is passed to a goroutine at " + p.pos(instrPos(y))
							}
						}
					}
				})
				c.check(bad == "", key, instrPos(in), "buffer with deferred release stays local", "a buffer whose release is deferred to this function's return "+bad+": it is reused by the pool while still referenced")
				return
			}
			key := "release@" + funcName(fn)
			def, _ := x.(ssa.Instruction)
			isDef := func(y ssa.Instruction) bool { return def != nil && y == def }
			// ownership: a buffer that was handed over (sent) must not be released by the sender
			handedOver := false
			eachInstr(fn, func(y ssa.Instruction) {
				switch z := y.(type) {
				case *ssa.Send:
					if z.X == x {
						if _, can := reachAvoiding(y, func(w ssa.Instruction) bool { return w == in }, isDef); can {
							handedOver = true
						}
					}
				case *ssa.Select:
					cases, _, ok := decodeSelect(z)
					if !ok {
						return
					}
					for _, cs := range cases {
						if cs.State.Dir == types.SendOnly && cs.State.Send == x && cs.Body != nil {
							if _, can := reachFromBlock(cs.Body, func(w ssa.Instruction) bool { return w == in }, isDef); can {
								handedOver = true
							}
						}
					}
				}
			})
			if handedOver {
				c.fail(key, instrPos(in), "the buffer is released after it was handed to a receiver on a channel: the receiver reads a recycled buffer")
				return
			}
			off, found := reachAvoiding(in, uses, func(y ssa.Instruction) bool { return def != nil && y == def })
			if !found {
				// the release site itself again (a loop around it) with the same buffer
				if _, again := reachAvoiding(in, func(y ssa.Instruction) bool { return y == in }, func(y ssa.Instruction) bool { return def != nil && y == def }); again {
					if _, isParam := x.(*ssa.Parameter); !isParam || def != nil {
						off, found = in, true
					}
				}
			}
			if found {
				what := "used"
				if cc, ok := off.(ssa.CallInstruction); ok {
					if _, _, isRel := releasedArg(cc); isRel {
						what = "released (or sent) a second time"
					}
				}
				c.fail(key, instrPos(off), "buffer released%s at %s is %s afterwards (%s): the pool hands it to another query meanwhile", via, p.pos(instrPos(in)), what, strings.TrimSpace(off.String()))
			} else {
				c.ok(key, instrPos(in), "no use of the buffer after its release on any path")
			}
		})
	}
}

// checkWaiterInsertAbsent (C01-R1, C02-R5): every insert into the waiter table happens on the absent
// edge of a lookup of the same key value inside one write-locked region.
func checkWaiterInsertAbsent(c *Ctx, lf *lockFacts) (*ssa.Function, ssa.Value) {
	p := c.P
	T := relTransport + "."
	queueF := T + "TraditionalDnsConn.queue"
	var inserter *ssa.Function
	var insertKeyBase ssa.Value
	for _, w := range p.whoWrites().byField[queueF] {
		if w.Kind != "mapupdate" {
			continue
		}
		mu := w.Instr.(*ssa.MapUpdate)
		key := "waiter-insert@" + funcName(w.Fn)
		inserter = w.Fn
		if cv, ok := mu.Key.(*ssa.Convert); ok {
			insertKeyBase = cv.X
		}
		// find the comma-ok lookup with an equal key guarding this update
		found := false
		for _, g := range guardsOfInstr(mu) {
			v, truth := g.asBool()
			ex, ok := v.(*ssa.Extract)
			if !ok || ex.Index != 1 || truth {
				continue
			}
			lk, ok := ex.Tuple.(*ssa.Lookup)
			if !ok || !lk.CommaOk {
				continue
			}
			if k, ok := loadedField(lk.X); !ok || k != queueF {
				continue
			}
			// the same key VALUE (structural equality is not enough: a field re-read after an update differs)
			sameKey := lk.Index == mu.Key
			if c1, ok := lk.Index.(*ssa.Convert); ok {
				if c2, ok := mu.Key.(*ssa.Convert); ok && (c1.X == c2.X || sameCellValue(c1.X, c2.X)) {
					sameKey = true
				}
			}
			if !sameKey {
				continue
			}
			if lf.held(lk)[T+"TraditionalDnsConn.queueMu"] != lockW || lf.held(mu)[T+"TraditionalDnsConn.queueMu"] != lockW {
				continue
			}
			// one region: no unlock between lookup and insert
			unlocked := false
			eachInstr(w.Fn, func(x ssa.Instruction) {
				if ci, ok := x.(*ssa.Call); ok {
					if k, op, ok := lockOp(ci); ok && k == T+"TraditionalDnsConn.queueMu" && op == "unlock" && instrDominates(lk, x) {
						if _, can := reachAvoiding(x, func(y ssa.Instruction) bool { return y == ssa.Instruction(mu) }, func(y ssa.Instruction) bool { return y == ssa.Instruction(lk) }); can {
							unlocked = true
						}
					}
				}
			})
			if !unlocked {
				found = true
			}
		}
		c.check(found, key, instrPos(mu), "insert guarded by the absent edge of a same-key lookup under the write lock",
			"the wire id is inserted into the waiter table without first finding it absent (in the same critical section): a wrapped id counter overwrites the waiter of a query still in flight, whose reply then goes to the wrong caller")
	}
	if inserter == nil {
		c.anchorMissing("map insert into TraditionalDnsConn.queue")
	}
	return inserter, insertKeyBase

}

// waiterOrNil: v is the value loaded from the single waiter slot (field key k), or a phi all of whose edges are that
// or nil (the reader drops the waiter when the reply is not the one it waits for).
func waiterOrNil(v ssa.Value, k string, depth int) bool {
	if depth > 4 {
		return false
	}
	if kk, ok := loadedField(v); ok && kk == k {
		return true
	}
	if ph, ok := v.(*ssa.Phi); ok {
		some := false
		for _, e := range ph.Edges {
			if isNilConst(e) {
				continue
			}
			if !waiterOrNil(e, k, depth+1) {
				return false
			}
			some = true
		}
		return some
	}
	return false
}

// idRestorerParams: h is a helper that writes binary.BigEndian.Uint16(<[]byte parameter qi>) with PutUint16 at offset 0
// of the buffer its *[]byte parameter bi points to, in its entry block (on every path).  (-1, -1) otherwise.
func idRestorerParams(h *ssa.Function) (int, int) {
	if h == nil || len(h.Blocks) == 0 || !inMosdns(h) {
		return -1, -1
	}
	bi, qi := -1, -1
	for _, in := range h.Blocks[0].Instrs {
		pc, ok := in.(*ssa.Call)
		if !ok || callName(pc) != binPut16 || len(pc.Call.Args) != 3 {
			continue
		}
		ld, ok := pc.Call.Args[1].(*ssa.UnOp)
		if !ok || ld.Op != token.MUL {
			continue
		}
		src, ok := pc.Call.Args[2].(*ssa.Call)
		if !ok || callName(src) != binU16 || len(src.Call.Args) != 2 {
			continue
		}
		for i, prm := range h.Params {
			if ld.X == ssa.Value(prm) {
				bi = i
			}
			if src.Call.Args[1] == ssa.Value(prm) {
				qi = i
			}
		}
	}
	if bi < 0 || qi < 0 {
		return -1, -1
	}
	return bi, qi
}

// sameCellValue: a and b are two loads of one purely local cell that observe the same store: the store that reaches a
// is the only one that reaches b, and no store to the cell can execute between the last evaluation of a and b.
func sameCellValue(a, b ssa.Value) bool {
	la, ok1 := a.(*ssa.UnOp)
	lb, ok2 := b.(*ssa.UnOp)
	if !ok1 || !ok2 || la.X != lb.X {
		return false
	}
	ra, ok1 := reachingStores(la)
	rb, ok2 := reachingStores(lb)
	if !ok1 || !ok2 || len(ra) != 1 || len(rb) != 1 || ra[0] != rb[0] {
		return false
	}
	// b is only evaluated after a saw that very store: a lies on every path from the store to b
	_, bypass := reachAvoiding(ra[0], func(x ssa.Instruction) bool { return x == ssa.Instruction(lb) }, func(x ssa.Instruction) bool { return x == ssa.Instruction(la) })
	return !bypass
}
