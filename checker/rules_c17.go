package main

import (
	"fmt"
	"go/token"
	"strings"

	"golang.org/x/tools/go/ssa"
)

func init() {
	register(&propDef{
		ID: "C17",
		Explanation: "Decides, on every path of udpWithFallback.ExchangeContext and its helper: (R1) the TCP exchange runs exactly under msgTruncated(UDP reply) and its results are returned " +
			"unchanged; without TC the UDP reply is returned as is and no call on the TCP transport is reachable; UDP errors are returned; (R2) by bit-dependency analysis msgTruncated is exactly " +
			"bit 1 of header byte 2 of its argument; (R3) the UDP and the TCP dialers of the plain-UDP upstream dial the same address value; (R4) both exchanges receive the caller's query unchanged.",
		Assumptions: []string{"DNS header layout (TC = bit 1 of byte 2)"},
		Run:         runC17,
	})
}

func runC17(c *Ctx) {
	p := c.P
	f := c.fn(relUpstream, "udpWithFallback", "ExchangeContext")
	mt := c.fn(relUpstream, "", "msgTruncated")
	if f == nil || mt == nil {
		return
	}
	U := relUpstream + ".udpWithFallback."
	var udpCall, tcpCall, tcCall *ssa.Call
	nTransportCalls := 0
	eachInstr(f, func(in ssa.Instruction) {
		ci, ok := in.(*ssa.Call)
		if !ok {
			return
		}
		if staticCallee(ci) == mt {
			tcCall = ci
		}
		if strings.HasSuffix(callName(ci), ").ExchangeContext") {
			nTransportCalls++
			if k, ok := loadedField(ci.Call.Args[0]); ok {
				switch k {
				case U + "u":
					udpCall = ci
				case U + "t":
					tcpCall = ci
				}
			}
		}
	})
	c.rule("R1", "TCP exchange exactly under msgTruncated(UDP reply); its results returned; otherwise the UDP reply unchanged", 4)
	if udpCall == nil || tcpCall == nil || tcCall == nil || nTransportCalls != 2 {
		c.undecided("shape", f.Pos(), "expected one UDP exchange, one msgTruncated test and one TCP exchange (found udp=%v tcp=%v tc=%v calls=%d)", udpCall != nil, tcpCall != nil, tcCall != nil, nTransportCalls)
		return
	}
	var udpR ssa.Value
	for _, r := range referrers(udpCall) {
		if ex, ok := r.(*ssa.Extract); ok && ex.Index == 0 {
			udpR = ex
		}
	}
	// the TC test is applied to *udpR
	okArg := false
	if ld, ok := tcCall.Call.Args[0].(*ssa.UnOp); ok && ld.Op == token.MUL && ld.X == udpR {
		okArg = true
	}
	c.check(okArg, "tc-test-on-udp-reply", instrPos(tcCall), "msgTruncated is applied to the UDP reply", "msgTruncated is not applied to the reply received over UDP")
	// TCP call guarded by tc == true, and only by that (plus err == nil of the UDP call)
	guarded := false
	for _, g := range guardsOfInstr(tcpCall) {
		if v, truth := g.asBool(); v == ssa.Value(tcCall) && truth {
			guarded = true
		}
	}
	c.check(guarded, "tcp-iff-truncated", instrPos(tcpCall), "the TCP exchange runs only when the UDP reply is truncated", "the TCP exchange is not conditioned on msgTruncated of the UDP reply")
	// returns
	okRet := true
	var why string
	for _, r := range returnsOf(f) {
		rv := returnedValues(r)
		underTC, underNoTC, underUDPErr := false, false, false
		for _, g := range guardsOfInstr(r) {
			if v, truth := g.asBool(); v == ssa.Value(tcCall) {
				if truth {
					underTC = true
				} else {
					underNoTC = true
				}
			}
			if cm, ok := g.asCmp(); ok && cm.Op == token.NEQ && isNilConst(cm.Y) {
				if ex, ok := cm.X.(*ssa.Extract); ok && ex.Tuple == ssa.Value(udpCall) {
					underUDPErr = true
				}
			}
		}
		switch {
		case underUDPErr:
			if ex, ok := rv[1].(*ssa.Extract); !ok || ex.Tuple != ssa.Value(udpCall) || !isNilConst(rv[0]) {
				okRet, why = false, "the UDP error path does not return (nil, that error)"
			}
		case underTC:
			e0, ok0 := rv[0].(*ssa.Extract)
			e1, ok1 := rv[1].(*ssa.Extract)
			if !ok0 || !ok1 || e0.Tuple != ssa.Value(tcpCall) || e1.Tuple != ssa.Value(tcpCall) || e0.Index != 0 || e1.Index != 1 {
				okRet, why = false, "on the truncated path the results of the TCP exchange are not returned unchanged (e.g. the truncated UDP reply is kept when TCP fails)"
			}
		case underNoTC:
			if rv[0] != udpR || !isNilConst(rv[1]) {
				okRet, why = false, "without TC the UDP reply is not returned unchanged"
			}
			if _, can := reachAvoiding(tcCall, func(x ssa.Instruction) bool { return x == ssa.Instruction(r) }, func(x ssa.Instruction) bool { return x == ssa.Instruction(tcpCall) }); !can {
				okRet, why = false, "the non-truncated return is only reachable through the TCP exchange"
			}
		default:
			okRet, why = false, "a return that is neither the UDP-error, the truncated nor the non-truncated outcome"
		}
	}
	c.check(okRet, "returns", f.Pos(), "each outcome returns exactly what the property prescribes", why)
	// no TCP call reachable on the non-truncated edge
	{
		var iff *ssa.If
		for _, r := range referrers(tcCall) {
			if i, ok := r.(*ssa.If); ok {
				iff = i
			}
		}
		if iff == nil {
			c.undecided("no-tcp-without-tc", instrPos(tcCall), "msgTruncated's result is not branched on directly")
		} else {
			_, reach := reachFromBlock(succOnTruth(iff, false), func(x ssa.Instruction) bool { return x == ssa.Instruction(tcpCall) }, nil)
			c.check(!reach, "no-tcp-without-tc", instrPos(iff), "no TCP transport call is reachable for a non-truncated reply", "a TCP exchange is reachable although the UDP reply is not truncated")
		}
	}

	c.rule("R2", "msgTruncated(b) == bit 1 of b[2]", 1)
	{
		good := false
		rets := returnsOf(mt)
		if len(rets) == 1 {
			v := returnedValues(rets[0])[0]
			if bo, ok := v.(*ssa.BinOp); ok {
				and, ok2 := bo.X.(*ssa.BinOp)
				k, isC := constInt(bo.Y)
				if ok2 && isC && and.Op == token.AND {
					mask, isM := constInt(and.Y)
					src := and.X
					if !isM {
						mask, isM = constInt(and.X)
						src = and.Y
					}
					isB2 := false
					if ld, ok := src.(*ssa.UnOp); ok && ld.Op == token.MUL {
						if ia, ok := ld.X.(*ssa.IndexAddr); ok && ia.X == ssa.Value(mt.Params[0]) {
							if i, ok := constInt(ia.Index); ok && i == 2 {
								isB2 = true
							}
						}
					}
					if isM && mask == 2 && isB2 {
						if (bo.Op == token.NEQ && k == 0) || (bo.Op == token.EQL && k == 2) || (bo.Op == token.GTR && k == 0) {
							good = true
						}
					}
				}
			}
		}
		c.check(good, "tc-bit", mt.Pos(), "returns (b[2] & 0x02) != 0", "msgTruncated is not exactly the TC bit (bit 1 of header byte 2): truncated replies are mis-classified")
	}

	c.rule("R3", "the UDP and TCP dialers of the plain-UDP upstream dial the same address value", 1)
	if nu := c.fn(relUpstream, "", "NewUpstream"); nu != nil {
		// closures that are stored into the udpWithFallback's transports' DialContext: identify by network constant
		tr := p.newTracer()
		tr.throughFields, tr.throughParams, tr.throughCalls = false, false, false
		var udpAddr, tcpAddr []ssa.Value
		mixed := false
		{
			// only the closures of the "udp" case (also when the case body moved into a new constructor helper): they
			// return transport.DnsConn / transport.NetConn and call DialContext with a constant network
			eachInstrDeep(nu, func(a *ssa.Function, in ssa.Instruction) {
				ci, ok := in.(*ssa.Call)
				if !ok || a == nu || a.Parent() == nil {
					return
				}
				netV, addrV := ssa.Value(nil), ssa.Value(nil)
				if callName(ci) == "(*net.Dialer).DialContext" {
					netV, addrV = ci.Call.Args[2], ci.Call.Args[3]
				} else if h := ci.Call.StaticCallee(); isNewHelper(h) && len(h.Params) == len(ci.Call.Args) {
					// a NEW dial helper of the closures: it dials the network and the address it is handed
					eachInstr(h, func(y ssa.Instruction) {
						dc, ok := y.(*ssa.Call)
						if !ok || callName(dc) != "(*net.Dialer).DialContext" {
							return
						}
						for i, prm := range h.Params {
							if dc.Call.Args[2] == ssa.Value(prm) {
								netV = ci.Call.Args[i]
							}
							if dc.Call.Args[3] == ssa.Value(prm) {
								addrV = ci.Call.Args[i]
							}
						}
					})
				}
				if netV == nil || addrV == nil {
					return
				}
				net, _ := constString(netV)
				addrRoots := tr.originsNH(addrV)
				// restrict to closures whose address is a captured local computed in NewUpstream itself (the udp case)
				isCase := false
				for _, r := range addrRoots {
					if cl, ok := r.(*ssa.Call); ok && cl.Parent() == nu && callName(cl) == relUpstream+".joinPort" {
						isCase = true
						if net == "udp" {
							udpAddr = append(udpAddr, r)
						} else if net == "tcp" {
							tcpAddr = append(tcpAddr, r)
						}
					}
				}
				// the WHOLE origin set of the address is that one joinPort value (not "may be")
				if isCase && len(addrRoots) != 1 {
					mixed = true
				}
			})
		}
		good := len(udpAddr) == 1 && len(tcpAddr) >= 1 && !mixed
		for _, t := range tcpAddr {
			if len(udpAddr) != 1 || t != udpAddr[0] {
				good = false
			}
		}
		c.check(good, "same-address", nu.Pos(), "UDP and fallback-TCP dial the same joinPort(host, port) value", "the fallback TCP connection is not dialled to the same address value as the UDP socket")
	}

	c.rule("R4", "both exchanges get the caller's query unchanged, under the caller's context", 3)
	q := f.Params[2]
	c.check(udpCall.Call.Args[2] == ssa.Value(q), "udp-query", instrPos(udpCall), "UDP exchange sends q", "the UDP exchange does not send the caller's query")
	c.check(tcpCall.Call.Args[2] == ssa.Value(q), "tcp-query", instrPos(tcpCall), "TCP exchange re-sends the same q", "the TCP retry does not send the same query")
	c.check(isParamValue(p, udpCall.Call.Args[1], f.Params[1]) && isParamValue(p, tcpCall.Call.Args[1], f.Params[1]), "both-under-caller-ctx", instrPos(tcpCall), "both exchanges run under the caller's context",
		"the UDP or the TCP exchange runs under "+exprStr(tcpCall.Call.Args[1])+" instead of the caller's context (e.g. one that was cancelled after the UDP attempt): every truncated reply fails instead of being retried over TCP")

	c.rule("R5", "the bytes of a received reply (incl. the TC flag the fallback tests) are not modified on their way to the caller, except the id restoration", 3)
	checkReplyBytesUntouched(c, p.funcsIn(relTransport, relUpstream, relDnsutils, relDoh))

	c.rule("R6", "the TCP reply handed to the caller answers the fallback's own query: a non-pipelined connection re-enters the idle set only after its reply was read or when it was never used", 4)
	{
		tf := p.funcsIn(relTransport)
		lf := p.newLockFacts()
		lf.analyseScope(tf)
		checkIdleExclusive(c, tf, lf)
	}

	c.rule("R7", "a reply without TC is returned whole: the datagram reader's buffer is a constant of at least 4095 bytes and the reply handed on is exactly the bytes read", 1)
	checkDatagramReadBuffer(c)
	// ---------------------------------------------------------------- R8
	c.rule("R9", "a TCP reply of any size the length field can express reaches the caller: the frame reader has no length cap besides the 12-byte minimum, is not re-entered after a framing error and gets the connection itself", 6)
	checkFrameDiscipline(c)
	c.rule("R8", "the reply channel the TCP exchange waits on is made for that exchange, and replies are matched to it by a per-connection wire id (a late or surplus reply of an earlier query never reaches the fallback's caller)", 5)
	lf := p.newLockFacts()
	lf.analyseScope(p.funcsIn(relTransport))
	checkFreshReplyChan(c, lf)
	checkReuseIdMatch(c, lf)
}

// checkDatagramReadBuffer: readMsgUdp reads every datagram into the whole pooled buffer of a constant size >= 4095:
// nothing that shortens the buffer (a store into the pooled slice) can reach a later Read.
func checkDatagramReadBuffer(c *Ctx) {
	rm := c.fn(relTransport, "", "readMsgUdp")
	if rm == nil {
		return
	}
	c.see(rm)
	good, why := false, "no Read into a pooled buffer found"
	eachInstr(rm, func(in ssa.Instruction) {
		ci, ok := in.(*ssa.Call)
		if !ok || !ci.Call.IsInvoke() || ci.Call.Method.Name() != "Read" {
			return
		}
		ld, ok := ci.Call.Args[0].(*ssa.UnOp)
		if !ok {
			return
		}
		g, ok := ld.X.(*ssa.Call)
		if !ok || callName(g) != poolGet {
			why = "the datagram is read into " + exprStr(ci.Call.Args[0])
			return
		}
		n, isC := constInt(g.Call.Args[0])
		if !isC || n < 65535 {
			// D25: the rest of a datagram that is larger than the buffer is discarded by the kernel without an error
			why = "the receive buffer is " + exprStr(g.Call.Args[0]) + " bytes (the maximum message size, 65535, is required): a larger reply without TC is cut by the read and handed on chopped as if it was complete, with no TCP retry"
			return
		}
		good = true
		// no reslice of the pooled buffer before a (later) read
		for _, r := range referrers(g) {
			st, isSt := r.(*ssa.Store)
			if !isSt || st.Addr != ssa.Value(g) {
				continue
			}
			if _, again := reachAvoiding(st, func(x ssa.Instruction) bool { return x == in }, nil); again {
				good = false
				why = "the pooled buffer is re-sliced (" + c.P.pos(st.Pos()) + ") on a path that reads again: after one short datagram every later datagram is cut to that length and dropped as too small, although the reply arrived"
			}
		}
	})
	c.check(good, "rx-buffer", rm.Pos(), "datagrams are read into the whole pooled buffer of the maximum message size", why)
	// the reader drops exactly what cannot be a DNS message: every comparison of the received length with a constant is
	// "shorter than the 12-byte header" (a header-only reply — TC, FORMERR, REFUSED without the question — is a reply)
	okLen, nCmp := true, 0
	whyLen := ""
	eachInstr(rm, func(in ssa.Instruction) {
		bo, ok := in.(*ssa.BinOp)
		if !ok {
			return
		}
		x, y, op := bo.X, bo.Y, bo.Op
		if _, isC := constInt(x); isC {
			x, y, op = y, x, flipOp(op)
		}
		k, isC := constInt(y)
		if !isC {
			return
		}
		ex, isEx := x.(*ssa.Extract)
		if !isEx || ex.Index != 0 {
			return
		}
		if cl, isCall := ex.Tuple.(*ssa.Call); !isCall || !cl.Call.IsInvoke() || cl.Call.Method.Name() != "Read" {
			return
		}
		nCmp++
		switch {
		case op == token.LSS && k == 12, op == token.LEQ && k == 11, op == token.GEQ && k == 12, op == token.GTR && k == 11:
		default:
			okLen, whyLen = false, fmt.Sprintf("n %s %d", op, k)
		}
	})
	c.check(okLen && nCmp > 0, "rx-min-length", rm.Pos(), "exactly the datagrams shorter than a DNS header are discarded",
		"the datagram reader compares the received length with something else than the 12-byte header size ("+whyLen+"): a header-only reply (TC without the question, FORMERR, REFUSED) is discarded like junk — no TCP retry, the caller waits for its deadline although the server answered")
}
