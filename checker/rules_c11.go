package main

import (
	"go/token"
	"go/types"
	"sort"
	"strings"

	"golang.org/x/tools/go/ssa"
)

const relCMap = "pkg/concurrent_map"
const relCLRU = "pkg/concurrent_lru"

func init() {
	register(&propDef{
		ID: "C11",
		Explanation: "Decides the structural conditions of a safe, bounded cache store: (R1) by a must-lockset analysis, every read of a shard's map holds the shard lock (R or W) and every " +
			"write (update, delete, replacement of the map) holds it in W mode, in every function that touches it; (R2) the growing insert is reachable only through edges that certify " +
			"'no limit configured', 'there is room', or 'the map was emptied'; (R3) by interval analysis over all paths, the per-shard maximum derived from any configured size is >= 1 " +
			"(size clamped to at least the shard count before the division) and the bounded constructor is the one used by the cache; (R4) Get hides expired entries and the sweep only " +
			"deletes expired ones; (R5) the cache uses only the locked API of the map. Linearizability of concurrent histories is not decided.",
		Assumptions: []string{"sync.RWMutex semantics", "lock identity by (type, field)"},
		Run:         runC11,
	})
}

func runC11(c *Ctx) {
	p := c.P
	scope := p.funcsIn(relCMap, relCLRU, relCachePkg)
	c.see(scope...)
	lf := p.newLockFacts()
	lf.analyseScope(scope)

	// ---------------------------------------------------------------- R1
	c.rule("R1", "every access to shard.m / ConcurrentLRU.lru holds the guarding lock in the right mode", 20)
	checkFieldGuard(c, lf, scope, guardSpec{Field: relCMap + ".shard.m", Lock: relCMap + ".shard.l"})
	checkFieldGuard(c, lf, scope, guardSpec{Field: relCLRU + ".ConcurrentLRU.lru", Lock: relCLRU + ".ConcurrentLRU.Mutex"})
	// the callback-driven mutators must hold W for the whole call (they mutate through the callback's verdict)
	for _, name := range []string{"rangeDo", "testAndSet"} {
		f := c.fn(relCMap, "shard", name)
		if f == nil {
			continue
		}
		eachInstr(f, func(in ssa.Instruction) {
			ci, ok := in.(*ssa.Call)
			if !ok || callName(ci) != "dynamic" {
				return
			}
			held := lf.held(in)[relCMap+".shard.l"]
			c.check(held == lockW, "callback@"+funcName(f), instrPos(in), "user callback runs under the shard write lock",
				"user callback that decides set/delete runs without the shard write lock")
		})
	}

	// ---------------------------------------------------------------- R2
	c.rule("R2", "the growing insert of shard.set is reachable only via 'unlimited', 'room left' or 'emptied' edges", 1)
	if set := c.fn(relCMap, "shard", "set"); set != nil {
		mField, maxField := relCMap+".shard.m", relCMap+".shard.max"
		isLenM := func(v ssa.Value) bool { // len(m.m)
			cl, ok := v.(*ssa.Call)
			if !ok || callName(cl) != "builtin:len" {
				return false
			}
			k, ok := loadedField(cl.Call.Args[0])
			return ok && k == mField
		}
		isMax := func(v ssa.Value) bool {
			k, ok := loadedField(v)
			return ok && k == maxField
		}
		isLenPlus1 := func(v ssa.Value) bool {
			bo, ok := v.(*ssa.BinOp)
			if !ok || bo.Op != token.ADD {
				return false
			}
			if n, ok := constInt(bo.Y); ok && n == 1 && isLenM(bo.X) {
				return true
			}
			if n, ok := constInt(bo.X); ok && n == 1 && isLenM(bo.Y) {
				return true
			}
			return false
		}
		// certified(edge): taking `iff` with the given truth proves boundedness of the following insert
		certified := func(iff *ssa.If, truth bool) bool {
			g := guard{Cond: iff.Cond, Truth: truth}
			if cm, ok := g.asCmp(); ok {
				// normalise to X op Y
				X, Y, op := cm.X, cm.Y, cm.Op
				if isMax(X) { // max op' Y  ->  Y flip(op) max
					X, Y, op = Y, X, flipOp(op)
				}
				if isMax(Y) {
					if isLenPlus1(X) && op == token.LEQ {
						return true
					}
					if isLenM(X) && op == token.LSS {
						return true
					}
				}
				// max <= 0  (unlimited)
				if isMax(cm.X) {
					if n, ok := constInt(cm.Y); ok && n == 0 && (cm.Op == token.LEQ) {
						return true
					}
					if n, ok := constInt(cm.Y); ok && n == 1 && (cm.Op == token.LSS) {
						return true
					}
				}
				return false
			}
			// range exhausted: cond is `extract next #0`, false edge, loop body deletes from m.m
			if ex, ok := iff.Cond.(*ssa.Extract); ok && ex.Index == 0 && !truth {
				if nx, ok := ex.Tuple.(*ssa.Next); ok {
					if rg, ok := nx.Iter.(*ssa.Range); ok {
						if k, ok := loadedField(rg.X); ok && k == mField {
							// every completed iteration (a path from the body's entry back to the iterator's Next)
							// deleted an entry of m.m: once the range is exhausted, nothing it visited is left
							body := iff.Block().Succs[0]
							isDel := func(in ssa.Instruction) bool {
								if ci, ok := isCall(in, "builtin:delete"); ok {
									if k2, ok := loadedField(ci.Common().Args[0]); ok && k2 == mField {
										return true
									}
								}
								return false
							}
							hasDel := false
							if _, ok := reachFromBlock(body, isDel, func(x ssa.Instruction) bool { return x == ssa.Instruction(nx) }); ok {
								hasDel = true
							}
							_, skips := reachFromBlock(body, func(x ssa.Instruction) bool { return x == ssa.Instruction(nx) }, isDel)
							return hasDel && !skips
						}
					}
				}
			}
			return false
		}
		var inserts []*ssa.MapUpdate
		eachInstr(set, func(in ssa.Instruction) {
			if mu, ok := in.(*ssa.MapUpdate); ok {
				if k, ok := loadedField(mu.Map); ok && k == mField {
					inserts = append(inserts, mu)
				}
			}
		})
		if len(inserts) == 0 {
			c.anchorMissing("map insert in shard.set")
		}
		// a helper method of the shard that makes room itself: none of its returns is reachable from its entry without
		// crossing a certified edge, and it neither locks nor unlocks (it runs in the caller's critical section)
		makesRoom := map[*ssa.Function]bool{}
		for _, h := range c.P.funcsIn(relCMap) {
			if h == set || len(h.Blocks) == 0 || h.Signature.Recv() == nil || !strings.Contains(h.Signature.Recv().Type().String(), "shard") {
				continue
			}
			locks := false
			eachInstr(h, func(in ssa.Instruction) {
				if ci, ok := in.(ssa.CallInstruction); ok {
					if cl, isC := in.(*ssa.Call); isC {
						if _, _, isLock := lockOp(cl); isLock {
							locks = true
						}
					}
					_ = ci
				}
			})
			if locks {
				continue
			}
			seenH := map[*ssa.BasicBlock]bool{h.Blocks[0]: true}
			workH := []*ssa.BasicBlock{h.Blocks[0]}
			leaks := false
			for len(workH) > 0 {
				b := workH[0]
				workH = workH[1:]
				if _, isRet := terminator(b).(*ssa.Return); isRet {
					leaks = true
					break
				}
				iff, isIf := terminator(b).(*ssa.If)
				for i, sb := range b.Succs {
					if isIf && certified(iff, i == 0) {
						continue
					}
					if !seenH[sb] {
						seenH[sb] = true
						workH = append(workH, sb)
					}
				}
			}
			if !leaks {
				makesRoom[h] = true
			}
		}
		callsRoomMaker := func(b *ssa.BasicBlock, before ssa.Instruction) bool {
			for _, in := range b.Instrs {
				if in == before {
					return false
				}
				if cl, ok := in.(*ssa.Call); ok {
					sc := cl.Call.StaticCallee()
					if sc != nil && sc.Origin() != nil {
						sc = sc.Origin()
					}
					if sc != nil && makesRoom[sc] {
						return true
					}
				}
			}
			return false
		}
		for _, mu := range inserts {
			// search from entry without crossing certified edges
			seen := map[*ssa.BasicBlock]bool{set.Blocks[0]: true}
			work := []*ssa.BasicBlock{set.Blocks[0]}
			reached := false
			for len(work) > 0 {
				b := work[0]
				work = work[1:]
				if b == mu.Block() {
					if !callsRoomMaker(b, mu) {
						reached = true
						break
					}
					continue
				}
				if callsRoomMaker(b, nil) {
					continue
				}
				iff, isIf := terminator(b).(*ssa.If)
				for i, s := range b.Succs {
					if isIf && certified(iff, i == 0) {
						continue
					}
					if !seen[s] {
						seen[s] = true
						work = append(work, s)
					}
				}
			}
			// the room check and the insert must be one critical section
			eachInstr(set, func(in ssa.Instruction) {
				ci, ok := in.(*ssa.Call)
				if !ok {
					return
				}
				if k, op, ok := lockOp(ci); ok && k == relCMap+".shard.l" && (op == "unlock" || op == "runlock") {
					if _, can := reachAvoiding(in, func(x ssa.Instruction) bool { return x == ssa.Instruction(mu) }, nil); can {
						reached = true
					}
				}
			})
			c.check(!reached, "insert@"+funcName(set), instrPos(mu),
				"every path to the insert passes an edge certifying unlimited / room left / emptied",
				"the insert is reachable without checking the shard's maximum in the same critical section: the shard can grow beyond its capacity")
		}
	}

	// ---------------------------------------------------------------- R3
	c.rule("R3", "for every configured size the per-shard maximum is >= 1 (clamp before division) and the cache uses the bounded constructor", 4)
	runC11R3(c)

	// ---------------------------------------------------------------- R4
	c.rule("R4", "Get returns a value only if it has not expired; the sweep deletes only expired entries", 2)
	checkExpiryGuards(c)

	// ---------------------------------------------------------------- R5
	c.rule("R5", "pkg/cache touches the map only through its locked API", 5)
	allowed := map[string]bool{"Get": true, "Set": true, "Del": true, "RangeDo": true, "Len": true, "Flush": true}
	for _, f := range p.funcsIn(relCachePkg) {
		eachInstr(f, func(in ssa.Instruction) {
			ci, ok := in.(ssa.CallInstruction)
			if !ok {
				return
			}
			sc := staticCallee(ci)
			if sc == nil || sc.Pkg == nil || sc.Pkg.Pkg.Path() != pkgPath(relCMap) || sc.Synthetic != "" {
				return
			}
			name := sc.Name()
			if sc.Signature.Recv() == nil {
				c.check(name == "NewMapCache", "mapapi@"+funcName(f)+":"+name, instrPos(in), "bounded constructor", "pkg/cache constructs its map with "+name+" (only NewMapCache applies the size limit)")
				return
			}
			c.check(allowed[name], "mapapi@"+funcName(f)+":"+name, instrPos(in), "locked map API "+name,
				"pkg/cache calls map method "+name+" which is outside the bounded, locked API (e.g. TestAndSet can grow a shard without eviction)")
		})
	}

	// ---------------------------------------------------------------- R6
	c.rule("R6", "every map insert that can add a key is bounded: set evicts first (R2), rangeDo rewrites existing keys only, and testAndSet (which never evicts) is only ever asked to set a key that is present at that moment", 3)
	{
		mField := relCMap + ".shard.m"
		for _, w := range p.whoWrites().byField[mField] {
			if w.Kind != "mapupdate" {
				continue
			}
			key := "insert@" + funcName(w.Fn)
			switch w.Fn.Name() {
			case "set":
				c.ok(key, instrPos(w.Instr), "bounded by the eviction loop (R2)")
			case "rangeDo":
				existing := false
				if ex, ok := w.Key.(*ssa.Extract); ok {
					if nx, ok := ex.Tuple.(*ssa.Next); ok {
						if rg, ok := nx.Iter.(*ssa.Range); ok {
							if k, _ := loadedField(rg.X); k == mField {
								existing = true
							}
						}
					}
				}
				c.check(existing, key, instrPos(w.Instr), "rewrites the key it is ranging over (no growth)", "rangeDo stores under a key other than the one it ranges over: the shard can grow without eviction")
			case "testAndSet":
				c.ok(key, instrPos(w.Instr), "unbounded when the key is absent: its callers are checked below")
			default:
				// a NEW helper that does the writing for testAndSet / rangeDo (under their lock): same obligations at its
				// call sites
				okHelper := false
				if isNewHelper(w.Fn) {
					sites, asValue := callSitesOf(w.Fn)
					okHelper = !asValue && len(sites) > 0
					ki := -1
					for i, prm := range w.Fn.Params {
						if w.Key == ssa.Value(prm) {
							ki = i
						}
					}
					for _, st := range sites {
						switch st.Parent().Name() {
						case "testAndSet":
						case "rangeDo":
							existing := false
							args := st.(ssa.CallInstruction).Common().Args
							if ki >= 0 && ki < len(args) {
								if ex, ok := args[ki].(*ssa.Extract); ok {
									if nx, ok := ex.Tuple.(*ssa.Next); ok {
										if rg, ok := nx.Iter.(*ssa.Range); ok {
											if k, _ := loadedField(rg.X); k == mField {
												existing = true
											}
										}
									}
								}
							}
							if !existing {
								okHelper = false
							}
						default:
							okHelper = false
						}
					}
				}
				c.check(okHelper, key, instrPos(w.Instr), "writer helper of testAndSet / rangeDo (rangeDo hands it the key it ranges over)", "a new writer of shard.m inserts without the eviction loop of shard.set: the shard can exceed its maximum")
			}
		}
		// callers of the non-evicting setter
		for _, f := range p.Funcs {
			fn := f
			eachInstr(f, func(in ssa.Instruction) {
				ci, ok := in.(ssa.CallInstruction)
				if !ok {
					return
				}
				sc := staticCallee(ci)
				if sc == nil || sc.Pkg == nil || sc.Pkg.Pkg.Path() != pkgPath(relCMap) || (sc.Name() != "testAndSet" && sc.Name() != "TestAndSet") {
					return
				}
				args := ci.Common().Args
				cb := args[len(args)-1]
				key := "test-and-set-callback@" + funcName(fn)
				if pa, ok := cb.(*ssa.Parameter); ok && pa.Parent() == fn {
					c.ok(key, instrPos(in), "forwards its caller's callback")
					return
				}
				var cbf *ssa.Function
				switch x := cb.(type) {
				case *ssa.MakeClosure:
					cbf, _ = x.Fn.(*ssa.Function)
				case *ssa.Function:
					cbf = x
				}
				if cbf == nil || len(cbf.Params) < 2 {
					c.undecided(key, instrPos(in), "the callback is not a function literal; cannot decide when it sets")
					return
				}
				okParam := cbf.Params[len(cbf.Params)-1]
				good := true
				for _, r := range returnsOf(cbf) {
					rv := returnedValues(r)
					if len(rv) < 2 {
						continue
					}
					for _, lf := range expandCases(rv[1], nil, 0) {
						if b, isB := constBool(lf.val); isB && !b {
							continue
						}
						if lf.val == ssa.Value(okParam) {
							continue
						}
						guarded := false
						for _, g := range append(lf.guards, guardsOfInstr(r)...) {
							if v, truth := g.asBool(); v == ssa.Value(okParam) && truth {
								guarded = true
							}
						}
						if !guarded {
							good = false
						}
					}
				}
				c.check(good, key, instrPos(in), "the callback sets only a key that is present under the shard lock",
					"the callback can ask testAndSet to set a key that is absent at that moment (e.g. evicted since an earlier, separately locked presence check): testAndSet never evicts, so a full shard grows beyond its maximum and the cache exceeds its configured size")
			})
		}
	}

	// ---------------------------------------------------------------- R7
	c.rule("R7", "shard methods run on the map's own shards (addressed in place, never on a copy), and Store reaches Set on every path except 'already expired', with an element of its own", 10)
	for _, f := range p.funcsIn(relCMap) {
		fn := f
		eachInstr(f, func(in ssa.Instruction) {
			ci, ok := in.(*ssa.Call)
			if !ok {
				return
			}
			sc := staticCallee(ci)
			if sc == nil || sc.Signature.Recv() == nil || !strings.HasSuffix(typeKey(sc.Signature.Recv().Type()), relCMap+".shard") {
				return
			}
			if fn.Signature.Recv() != nil && strings.HasSuffix(typeKey(fn.Signature.Recv().Type()), relCMap+".shard") {
				return // shard calling itself
			}
			recv := ci.Call.Args[0]
			good := false
			switch x := recv.(type) {
			case *ssa.IndexAddr:
				if k, _ := fieldKey(x.X); k == relCMap+".Map.shards" {
					good = true
				}
			case *ssa.Call:
				if g := staticCallee(x); g != nil && g.Name() == "getShard" {
					good = true
				}
			}
			c.check(good, "shard-in-place@"+funcName(fn)+"->"+sc.Name(), instrPos(in), "the shard is addressed inside the map", "a shard method runs on "+exprStr(recv)+", which is not an element of the map's own shard array addressed in place (a copy: its lock protects nothing and its writes are lost)")
		})
	}
	if gs := p.Func(relCMap, "Map", "getShard"); gs != nil {
		good := false
		for _, r := range returnsOf(gs) {
			if ia, ok := returnedValues(r)[0].(*ssa.IndexAddr); ok {
				if k, _ := fieldKey(ia.X); k == relCMap+".Map.shards" {
					good = true
				}
			}
		}
		c.check(good, "shard-in-place@getShard", gs.Pos(), "getShard returns the address of the map's own shard", "getShard does not return the address of an element of Map.shards")
	}
	if stF := c.fn(relCachePkg, "Cache", "Store"); stF != nil {
		eachInstr(stF, func(in ssa.Instruction) {
			ci, ok := in.(*ssa.Call)
			if !ok || callName(ci) != "(*pkg/concurrent_map.Map).Set" {
				return
			}
			extra := ""
			for _, g := range guardsOfInstr(in) {
				v, truth := g.asBool()
				if cl, ok := v.(*ssa.Call); ok && callName(cl) == "(time.Time).After" && !truth {
					continue
				}
				if !truth && isExpiredNowTest(v, stF.Params[3], false) {
					continue
				}
				if g.Derived {
					continue
				}
				extra = guardText(g)
			}
			// and no return is reachable without the Set, except through the "already expired" edge
			// (time.Now().After(expiration) is true) — whatever the shape: early return or guarded block
			{
				type edge struct{ from, to *ssa.BasicBlock }
				removed := map[edge]bool{}
				eachInstr(stF, func(x ssa.Instruction) {
					iff, ok := x.(*ssa.If)
					if !ok {
						return
					}
					for _, truth := range []bool{true, false} {
						g := guard{Cond: iff.Cond, Truth: truth, If: iff}
						v, t := g.asBool()
						if t && isExpiredNowTest(v, stF.Params[3], true) {
							removed[edge{iff.Block(), succOnTruth(iff, truth)}] = true
						}
					}
				})
				seen := map[*ssa.BasicBlock]bool{stF.Blocks[0]: true}
				work := []*ssa.BasicBlock{stF.Blocks[0]}
				for len(work) > 0 {
					b := work[0]
					work = work[1:]
					hasSet := false
					for _, x := range b.Instrs {
						if x == in {
							hasSet = true
						}
					}
					if hasSet {
						continue
					}
					if _, isRet := terminator(b).(*ssa.Return); isRet && b.Comment != "recover" {
						extra = "a return that skips the Set for a reason other than 'already expired'"
					}
					for _, sb := range b.Succs {
						if removed[edge{b, sb}] || seen[sb] {
							continue
						}
						seen[sb] = true
						work = append(work, sb)
					}
				}
			}
			// what is set is an element made by this Store call: a recycled one (pool, free list) may still be reachable
			// through the table, or be handed out twice — Get(k1) then returns what was stored under k2 (round 12)
			{
				fresh := false
				if len(ci.Call.Args) == 3 {
					if al, ok := ci.Call.Args[2].(*ssa.Alloc); ok && al.Heap && al.Parent() == stF {
						fresh = true
					}
				}
				c.check(fresh, "stored-element-is-fresh@Store", instrPos(in), "the stored element is allocated by this Store call",
					"Store puts an element into the table that it did not allocate itself ("+exprStr(ci.Call.Args[len(ci.Call.Args)-1])+"): an element recycled while readers still hold it, or handed out twice, makes Get return a value stored under another key")
			}
			c.check(extra == "", "store-always-sets", instrPos(in), "Store sets the entry unless it is already expired", "Store sets the entry only under "+extra+": a value stored later is silently dropped and Get keeps returning the overwritten one")
		})
	}

	// ---------------------------------------------------------------- R8
	c.rule("R8", "no lock-order cycle (mutexes and sync.Once) among the cache, the sharded map, the LRU and the cache plugin; user callbacks run under exactly one shard lock", 1)
	{
		scope := p.funcsIn(relCachePkg, relCMap, relCLRU, "pkg/lru", relCachePlugin)
		lf2 := p.newLockFacts()
		lf2.analyseScope(scope)
		lo := newLockOrder(p, scope, lf2)
		lo.build()
		cycles := lo.cycles()
		if len(cycles) == 0 {
			c.ok("lock-order", 0, "acyclic (%d nested acquisitions: %s)", len(lo.Edges), strings.Join(lo.describe(), "; "))
		}
		for _, cyc := range cycles {
			c.fail("lock-order", cyc[0].Pos, "lock-order cycle: %s — two goroutines block each other forever", fmtCycle(p, cyc))
		}
	}
	_ = sort.Strings
	_ = types.Typ
}

// runC11R3: size flow cache.New -> Opts.init -> NewMapCache -> newShard.
func runC11R3(c *Ctx) {
	p := c.P
	sizeField := relCachePkg + ".Opts.Size"
	nw := c.fn(relCachePkg, "", "New")
	initF := c.fn(relCachePkg, "Opts", "init")
	nmc := c.fn(relCMap, "", "NewMapCache")
	if nw == nil || initF == nil || nmc == nil {
		return
	}
	// shard count = length of Map.shards
	shardN := int64(-1)
	if mt := p.Named(relCMap, "Map"); mt != nil {
		if st := structOf(mt); st != nil {
			for i := 0; i < st.NumFields(); i++ {
				if arr, ok := st.Field(i).Type().Underlying().(*types.Array); ok {
					shardN = arr.Len()
				}
			}
		}
	}
	if shardN <= 0 {
		c.anchorMissing("Map.shards array length")
		return
	}
	// (a) in New: NewMapCache(arg) where arg = load Opts.Size, after Opts.init on the same object
	var mkCall *ssa.Call
	var initCall ssa.Instruction
	eachInstr(nw, func(in ssa.Instruction) {
		if ci, ok := in.(*ssa.Call); ok {
			if sc := staticCallee(ci); sc == nmc {
				mkCall = ci
			} else if sc == initF {
				initCall = in
			}
		}
	})
	if mkCall == nil {
		c.anchorMissing("call of NewMapCache in cache.New")
		return
	}
	cellOf := func(addr ssa.Value) string {
		if k, ok := fieldKey(addr); ok && k == sizeField {
			return "Size"
		}
		return ""
	}
	argIv, ok := rangeAt(nw, mkCall, mkCall.Call.Args[0], "", cellOf)
	if !ok {
		c.undecided("size@cache.New", instrPos(mkCall), "interval analysis of the size argument did not terminate")
	} else {
		c.check(argIv.lo >= shardN, "size@cache.New", instrPos(mkCall),
			"size passed to NewMapCache is in "+argIv.String()+" on every path (>= shard count)",
			"size passed to NewMapCache is in "+argIv.String()+": values below the shard count ("+itoa(shardN)+") give a per-shard maximum of 0, which means unlimited")
	}
	// the clamp ran on the very object the size is read from (not on a copy), through a pointer receiver
	{
		same := false
		if ic, ok := initCall.(*ssa.Call); ok && ic != nil {
			recv := ic.Call.Args[0]
			if ld, ok := mkCall.Call.Args[0].(*ssa.UnOp); ok && ld.Op == token.MUL {
				if fa, ok := ld.X.(*ssa.FieldAddr); ok && fa.X == recv && instrDominates(ic, mkCall) {
					same = true
				}
			}
			if _, isPtr := initF.Signature.Recv().Type().(*types.Pointer); !isPtr {
				same = false
			}
		}
		c.check(same, "size-clamped-object@cache.New", instrPos(mkCall), "Opts.init ran (pointer receiver) on the object whose Size is passed on",
			"the size passed to NewMapCache is not read from the object that Opts.init clamped (a copy was clamped, or init has a value receiver): sizes below the shard count give a per-shard maximum of 0 = unlimited")
	}
	// the map is built only there: every NewMapCache call of the cache package is the one checked above, and Cache.m is
	// written only by the constructor
	for _, f := range c.P.funcsIn(relCachePkg) {
		fn := f
		eachInstr(f, func(in ssa.Instruction) {
			if ci, ok := in.(*ssa.Call); ok && staticCallee(ci) != nil && staticCallee(ci).Name() == "NewMapCache" && ci != mkCall {
				c.fail("map-built-once@"+funcName(fn), instrPos(in), "a second NewMapCache call outside cache.New: its size argument is not clamped (e.g. a zero-valued opts field gives an unlimited map)")
			}
		})
	}
	for _, w := range c.P.whoWrites().byField[relCachePkg+".Cache.m"] {
		c.check(w.Fn == nw, "map-built-once@"+funcName(w.Fn), instrPos(w.Instr), "Cache.m is set by the constructor", "Cache.m is replaced outside the constructor ("+funcName(w.Fn)+"): unsynchronised with readers, and the new map's bound is not the configured one")
	}
	// (b) NewMapCache: per-shard = size / shardN, passed to newShard
	var perShardOK, foundShard bool
	eachInstr(nmc, func(in ssa.Instruction) {
		ci, ok := in.(*ssa.Call)
		if !ok {
			return
		}
		sc := staticCallee(ci)
		if sc == nil || sc.Name() != "newShard" {
			return
		}
		foundShard = true
		arg := ci.Call.Args[0]
		if bo, ok := arg.(*ssa.BinOp); ok && bo.Op == token.QUO && bo.X == ssa.Value(nmc.Params[0]) {
			if n, ok := constInt(bo.Y); ok && n == shardN {
				perShardOK = true
			}
		}
	})
	if !foundShard {
		c.anchorMissing("newShard call in NewMapCache")
	} else {
		c.check(perShardOK, "pershard@NewMapCache", nmc.Pos(), "per-shard maximum = size / "+itoa(shardN)+" (total <= size)",
			"per-shard maximum is not size divided by the number of shards: the total can exceed the configured size")
	}
	// (c) newShard stores its parameter in shard.max
	if ns := c.fn(relCMap, "", "newShard"); ns != nil {
		okMax := false
		eachInstr(ns, func(in ssa.Instruction) {
			if st, ok := in.(*ssa.Store); ok {
				if k, ok := fieldKey(st.Addr); ok && k == relCMap+".shard.max" && st.Val == ssa.Value(ns.Params[0]) {
					okMax = true
				}
			}
		})
		c.check(okMax, "max@newShard", ns.Pos(), "newShard records the maximum", "newShard does not record its max parameter")
	}
	// (d) the plugin hands the configured size through unchanged or clamped upward
	if nc := c.fn(relCachePlugin, "", "NewCache"); nc != nil {
		found := false
		eachInstr(nc, func(in ssa.Instruction) {
			ci, ok := in.(*ssa.Call)
			if !ok {
				return
			}
			if sc := staticCallee(ci); sc != nil && sc == nw {
				found = true
			}
		})
		c.check(found, "plugin-uses-cache.New", nc.Pos(), "the cache plugin builds its backend with cache.New (which clamps the size)",
			"the cache plugin does not build its backend through cache.New")
	}
}

func itoa(n int64) string {
	return strings.TrimSpace(strings.Replace(strings.Replace(formatInt(n), "\n", "", -1), " ", "", -1))
}

func formatInt(n int64) string {
	if n == 0 {
		return "0"
	}
	neg := n < 0
	if neg {
		n = -n
	}
	var b []byte
	for n > 0 {
		b = append([]byte{byte('0' + n%10)}, b...)
		n /= 10
	}
	if neg {
		b = append([]byte{'-'}, b...)
	}
	return string(b)
}

// checkExpiryGuards (C11-R4, C05-R6): Get returns a hit only when not expired; gc deletes only expired entries.
func checkExpiryGuards(c *Ctx) {
	if get := c.fn(relCachePkg, "Cache", "Get"); get != nil {
		for _, r := range returnsOf(get) {
			vals := returnedValues(r)
			if len(vals) != 3 {
				continue
			}
			if b, ok := constBool(vals[2]); ok && !b {
				// a miss hands out nothing: callers (the cache plugin's lookup among them) test the value, not ok
				zero := func(v ssa.Value) bool {
					cst, isC := v.(*ssa.Const)
					return isC && (cst.Value == nil || isNilConst(v))
				}
				c.check(zero(vals[0]), "miss-return@"+funcName(get), instrPos(r), "a miss returns the zero value",
					"Get returns "+exprStr(vals[0])+" together with ok == false (absent or expired entry): callers that test the value instead of ok — the cache plugin's lookup does — serve an entry that has expired")
				continue
			}
			// need a guard: (expirationTime).Before(now) == false   or   now.After(exp)==false / !now.Before..
			okGuard := false
			for _, g := range guardsOfInstr(r) {
				v, truth := g.asBool()
				if cl, ok := v.(*ssa.Call); ok {
					n := callName(cl)
					if (n == "(time.Time).Before" || n == "(time.Time).After") && !truth {
						// Before(exp, now) false => exp >= now ; After(now, exp) false => now <= exp
						a0, a1 := cl.Call.Args[0], cl.Call.Args[1]
						isExp := func(x ssa.Value) bool {
							k, ok := loadedField(x)
							return ok && strings.HasSuffix(k, ".elem.expirationTime")
						}
						isNow := func(x ssa.Value) bool {
							cl2, ok := x.(*ssa.Call)
							return ok && callName(cl2) == "time.Now"
						}
						if n == "(time.Time).Before" && isExp(a0) && isNow(a1) {
							okGuard = true
						}
						if n == "(time.Time).After" && isNow(a0) && isExp(a1) {
							okGuard = true
						}
					}
					// the same predicate behind a function: expired(e.expirationTime, time.Now())
					if e2, n2, isF := expiredFuncArgs(cl); isF && !truth {
						if k, ok := loadedField(e2); ok && strings.HasSuffix(k, ".elem.expirationTime") {
							if c2, ok := n2.(*ssa.Call); ok && callName(c2) == "time.Now" {
								okGuard = true
							}
						}
					}
					// the same predicate behind a method of the entry: e.expired(time.Now())
					if !truth && isExpiredHelper(cl.Call.StaticCallee()) && len(cl.Call.Args) == 2 {
						if c2, ok := cl.Call.Args[1].(*ssa.Call); ok && callName(c2) == "time.Now" {
							okGuard = true
						}
					}
				}
			}
			c.check(okGuard, "hit-return@"+funcName(get), instrPos(r), "hit is returned only under 'not expired'",
				"Get can return a value without checking that it has not expired")
		}
	}
	if gc := c.fn(relCachePkg, "Cache", "gc"); gc != nil {
		for _, an := range gc.AnonFuncs {
			for _, r := range returnsOf(an) {
				vals := returnedValues(r)
				if len(vals) != 4 {
					continue
				}
				del := vals[2]
				okDel := false
				if b, ok := constBool(del); ok && !b {
					okDel = true
				}
				if cl, ok := del.(*ssa.Call); ok && callName(cl) == "(time.Time).After" {
					if k, ok := loadedField(cl.Call.Args[1]); ok && strings.HasSuffix(k, ".elem.expirationTime") {
						okDel = true
					}
				}
				if cl, ok := del.(*ssa.Call); ok && callName(cl) == "(time.Time).Before" {
					if k, ok := loadedField(cl.Call.Args[0]); ok && strings.HasSuffix(k, ".elem.expirationTime") {
						okDel = true
					}
				}
				if cl, ok := del.(*ssa.Call); ok && isExpiredHelper(cl.Call.StaticCallee()) {
					okDel = true
				}
				if cl, ok := del.(*ssa.Call); ok {
					if e2, _, isF := expiredFuncArgs(cl); isF {
						if k, ok := loadedField(e2); ok && strings.HasSuffix(k, ".elem.expirationTime") {
							okDel = true
						}
					}
				}
				c.check(okDel, "sweep-verdict@"+funcName(an), instrPos(r), "sweep deletes exactly when now is after the entry's expiry",
					"the sweep's delete verdict is not 'now.After(expirationTime)': live entries can be removed or dead ones kept")
			}
		}
	}

}

// isExpiredHelper: a method of the cache entry whose only return is `recv.expirationTime.Before(<its time parameter>)`
// or `<its time parameter>.After(recv.expirationTime)`.
func isExpiredHelper(h *ssa.Function) bool {
	if h == nil {
		return false
	}
	if o := h.Origin(); o != nil {
		h = o
	}
	if len(h.Blocks) == 0 || !inMosdns(h) || len(h.Params) != 2 {
		return false
	}
	rets := returnsOf(h)
	if len(rets) != 1 || len(rets[0].Results) != 1 {
		return false
	}
	cl, ok := rets[0].Results[0].(*ssa.Call)
	if !ok {
		return false
	}
	isExp := func(x ssa.Value) bool {
		k, ok := loadedField(x)
		if !ok || !strings.HasSuffix(k, ".elem.expirationTime") {
			return false
		}
		ld, ok := x.(*ssa.UnOp)
		return ok && fieldBase(ld.X) == ssa.Value(h.Params[0])
	}
	switch callName(cl) {
	case "(time.Time).Before":
		return isExp(cl.Call.Args[0]) && cl.Call.Args[1] == ssa.Value(h.Params[1])
	case "(time.Time).After":
		return cl.Call.Args[0] == ssa.Value(h.Params[1]) && isExp(cl.Call.Args[1])
	}
	return false
}

// isExpiredNowTest: v is `now.After(exp)` or its mirror `exp.Before(now)` (time.Time.After/Before are exact mirrors);
// with needNow the clock operand must be a time.Now() call.
func isExpiredNowTest(v ssa.Value, exp ssa.Value, needNow bool) bool {
	cl, ok := v.(*ssa.Call)
	if !ok || len(cl.Call.Args) != 2 {
		return false
	}
	var now ssa.Value
	if e2, n2, isF := expiredFuncArgs(cl); isF {
		if e2 != exp {
			return false
		}
		if !needNow {
			return true
		}
		c2, ok := n2.(*ssa.Call)
		return ok && callName(c2) == "time.Now"
	}
	switch callName(cl) {
	case "(time.Time).After":
		if cl.Call.Args[1] != exp {
			return false
		}
		now = cl.Call.Args[0]
	case "(time.Time).Before":
		if cl.Call.Args[0] != exp {
			return false
		}
		now = cl.Call.Args[1]
	default:
		return false
	}
	if !needNow {
		return true
	}
	c2, ok := now.(*ssa.Call)
	return ok && callName(c2) == "time.Now"
}

// expiredFuncArgs: cl calls a function of the analysed module `f(a, b time.Time) bool` whose single return is b.After(a) or
// a.Before(b) (either parameter order): returns the arguments in the roles (expiry, now).
func expiredFuncArgs(cl *ssa.Call) (exp, now ssa.Value, ok bool) {
	h := cl.Call.StaticCallee()
	if h == nil || cl.Call.IsInvoke() {
		return nil, nil, false
	}
	if o := h.Origin(); o != nil {
		h = o
	}
	if len(h.Blocks) == 0 || !inMosdns(h) || len(h.Params) != 2 || len(cl.Call.Args) != 2 || h.Signature.Recv() != nil {
		return nil, nil, false
	}
	for _, prm := range h.Params {
		if prm.Type().String() != "time.Time" {
			return nil, nil, false
		}
	}
	rets := returnsOf(h)
	if len(rets) != 1 || len(rets[0].Results) != 1 {
		return nil, nil, false
	}
	in, isCall := rets[0].Results[0].(*ssa.Call)
	if !isCall || len(in.Call.Args) != 2 {
		return nil, nil, false
	}
	idx := func(v ssa.Value) int {
		for i, prm := range h.Params {
			if v == ssa.Value(prm) {
				return i
			}
		}
		return -1
	}
	a0, a1 := idx(in.Call.Args[0]), idx(in.Call.Args[1])
	if a0 < 0 || a1 < 0 || a0 == a1 {
		return nil, nil, false
	}
	switch callName(in) {
	case "(time.Time).After": // now.After(exp)
		return cl.Call.Args[a1], cl.Call.Args[a0], true
	case "(time.Time).Before": // exp.Before(now)
		return cl.Call.Args[a0], cl.Call.Args[a1], true
	}
	return nil, nil, false
}
