#!/usr/bin/env python3
"""Generates /verif/MANIFEST.json from the table below (kept next to the checker so that the claimed
level, note and technique of every property live in one reviewed place)."""
import json, os, subprocess

V = os.path.dirname(os.path.abspath(__file__))
props = [json.loads(l) for l in open(os.path.join(V, "properties.jsonl"))]

LEVEL_TEXT = ("Repository-specific static rules over the type-checked SSA form of /repo's current tree. Each rule is a "
              "structural NECESSARY condition of one clause of the property; every instance is enumerated (with a "
              "hand-confirmed minimum count) and must be discharged on every path of the analysed functions, hence for "
              "every input and schedule that can drive them. It decides those clauses, not the run-time behaviour: ")

# id -> (decides, note, technique); ids missing here are listed under not_applicable with NA[id]
TRUST = "Trusted: go/types, go/ssa (x/tools v0.29.0), the Go memory model and the documented semantics of the standard library; lock, field and channel identity is by (type, field), instances are not distinguished; hand-confirmed instance minimums and idiom tables in /verif/checker/rules_*.go. A re-architecture of the anchored mechanism that uses an idiom the rule does not know is reported as undecided (the check fails rather than pass on code it does not understand). "
CLAIMS = {
 "C02": ("reader hand-off channels are buffered at every make site; waiter registered before the write; the wait prefers a delivered reply over the close notification; reader re-arms the read deadline. Not decided: timing.",
         TRUST + "Go channel semantics (a send on a channel with free buffer space never blocks).",
         "SSA value-provenance of channel make sites + dominance / must-pass-through on the CFG"),
 "C04": ("the cache key builder is injective in (AD, CD, DO, 16 type bits, 16 class bits, name): every input bit is the sole dependency of a header bit, the name is copied verbatim, the buffer is fresh and private; non-empty key only for QR=0/QUERY/one question; one key value for lookup and stores. This is the whole property except the semantics of miekg/dns field accessors.",
         TRUST + "miekg/dns Msg.IsEdns0 / OPT.Do as documented; Go string map-key equality.",
         "bit-level dependency abstract interpretation of the key builder (SSA) + guard and provenance rules"),
 "C09": ("lockset on counters, waiter table, flags and connection sets; admission test inside the critical section; exactly-once release and wait-group accounting on every path of both ReservedExchanger implementations; no double counting of in-flight queries; reserved exchangers consumed exactly once by callers; dial only when nothing admitted; dialing limit <= connection limit. Not decided: run-time maxima over interleavings.",
         TRUST + "sync.Mutex / sync.WaitGroup semantics.",
         "must-lockset dataflow + exhaustive CFG path enumeration (event counting, typestate of reserved exchangers)"),
 "C11": ("lockset on every shard-map access (R for reads, W for writes); bounded insert only via certified edges inside one critical section; per-shard maximum >= 1 for every configured size (interval analysis of the size clamp); expiry guards in Get and the sweep; the cache uses only the locked, bounded map API. Not decided: linearizability of histories.",
         TRUST + "sync.RWMutex semantics.",
         "must-lockset dataflow + edge-certified reachability + path-sensitive interval analysis"),
 "C18": ("scheme->default-port table by resolved constants; provenance of every dialled/resolved address from parseDialAddr(trimmed URL host, dial_addr, default); SNI default; bracket trimmer strips exactly what it tested; helper schemes; parse errors propagate. Not decided: string semantics of net/url and net.SplitHostPort over all inputs.",
         TRUST + "net/url, net.SplitHostPort, net.JoinHostPort as documented.",
         "AST table check with type-resolved constants + SSA value-provenance + guard analysis"),
 "C19": ("writer/reader field agreement with per-field sources; item rebuilt from matching getters; block length within [0,limit] at the allocation (interval analysis); every read/decode error leads to an error return, only io.EOF on a block header tolerated; header verified first; expired entries skipped on both sides. Not decided: round-trip equality of arbitrary messages, robustness of gzip/protobuf/miekg to arbitrary bytes (trusted).",
         TRUST + "protobuf getters return their field; gzip/protobuf/dns.Msg.Unpack report malformed input as errors.",
         "writer/reader table agreement over SSA stores and getter calls + interval analysis + error-flow rule"),
 "C20": ("own answer queued before the sibling-waking close, 'done' only with an answer; gate select before the secondary's Exec; hold select before a standby answer; <=1 send per path and capacity >= workers; caller loop bound / nil skipping / ctx / failure last; workers on copies taken before go with the caller's deadline. Not decided: timing relative to the threshold.",
         TRUST + "Go channel FIFO and close semantics.",
         "channel/select structure analysis over SSA (dominance, case-body reachability, path counting)"),
}
NA = {}

checks, na = [], []
for p in props:
    pid = p["id"]
    if pid in CLAIMS:
        decides, note, tech = CLAIMS[pid]
        checks.append({
            "property_id": pid,
            "quick_cmd": f"/verif/check.sh {pid} quick",
            "thorough_cmd": f"/verif/check.sh {pid} thorough",
            "evidence_file": f"/verif/evidence/{pid}.json",
            "replay_cmd_template": f"/verif/check.sh {pid} quick  # re-evaluates the obligations listed in {{path}}",
            "engine": "mosverif",
            "level_claimed": {"category": "other", "text": LEVEL_TEXT + decides, "design_ref": f"DESIGN.md §5 {pid}"},
            "level_note": note,
            "technique": "static analysis: " + tech,
        })
    else:
        na.append({"property_id": pid, "reason": NA.get(pid, "static check not implemented yet (build in progress); no claim is made")})

m = {
 "version": 1,
 "setup_cmd": "cd /verif/checker && GOFLAGS=-mod=vendor GOPROXY=off GOSUMDB=off GOTOOLCHAIN=local go build -o /verif/bin/mosverif . && /verif/bin/mosverif warm",
 "hooks": {"guard": "verif", "enable": "none: the checks read /repo's source; no hook commit exists and nothing is built with a tag",
           "baseline_off_cmd": "cd /repo && GOFLAGS=-mod=mod go test -vet=off -count=1 -timeout 25m ./...",
           "source_commits": [], "add_only": True},
 "engines": [{"name": "mosverif", "path": "/verif/checker", "serves_properties": [c["property_id"] for c in checks],
              "kind_free_text": "Go program: go/packages + go/types + go/ssa (x/tools v0.29.0, vendored); repo-specific rules per property; mutant self-test via go/packages Overlay in the thorough tier"}],
 "checks": checks,
 "notes": "All checks are static: nothing under /repo is executed. Fixed defects are listed in /verif/known_findings.txt (fixed: lines suppress nothing).",
 "not_applicable": na,
}
json.dump(m, open(os.path.join(V, "MANIFEST.json"), "w"), indent=1)
print("checks:", len(checks), "not_applicable:", len(na))
