#!/usr/bin/env python3
"""Generates /verif/MANIFEST.json from the table below (kept next to the checker so that the claimed
level, note and technique of every property live in one reviewed place)."""
import json, os, subprocess

V = os.path.dirname(os.path.abspath(__file__))
props = [json.loads(l) for l in open(os.path.join(V, "properties.jsonl"))]

LEVEL_TEXT = ("Repository-specific static rules over the type-checked SSA form of /repo's current tree. Each rule is a "
              "structural NECESSARY condition of one clause of the property; every instance is enumerated (with a "
              "hand-confirmed minimum count) and must be discharged on every path of the analysed functions, hence for "
              "every input and schedule that can drive them. It decides those clauses, not the run-time behaviour: ")

# id -> (decides, note, technique); ids missing here are listed under not_applicable with NA[id]
CLAIMS = {
 "C02": ("reader hand-off channels are buffered at every make site; waiter registered before the write; the wait prefers a delivered reply over the close notification; reader re-arms the read deadline. Not decided: timing.",
         "Trusted: go/types, go/ssa, Go channel semantics; channel/field identity by type (instances not distinguished). An unrecognised re-architecture of the hand-off is reported as undecided (fails).",
         "SSA value-provenance of channel make sites + dominance / must-pass-through on the CFG"),
}
NA = {}

checks, na = [], []
for p in props:
    pid = p["id"]
    if pid in CLAIMS:
        decides, note, tech = CLAIMS[pid]
        checks.append({
            "property_id": pid,
            "quick_cmd": f"/verif/check.sh {pid} quick",
            "thorough_cmd": f"/verif/check.sh {pid} thorough",
            "evidence_file": f"/verif/evidence/{pid}.json",
            "replay_cmd_template": f"/verif/check.sh {pid} quick  # re-evaluates the obligations listed in {{path}}",
            "engine": "mosverif",
            "level_claimed": {"category": "other", "text": LEVEL_TEXT + decides, "design_ref": f"DESIGN.md §5 {pid}"},
            "level_note": note,
            "technique": "static analysis: " + tech,
        })
    else:
        na.append({"property_id": pid, "reason": NA.get(pid, "static check not implemented yet (build in progress); no claim is made")})

m = {
 "version": 1,
 "setup_cmd": "cd /verif/checker && GOFLAGS=-mod=vendor GOPROXY=off GOSUMDB=off GOTOOLCHAIN=local go build -o /verif/bin/mosverif . && /verif/bin/mosverif warm",
 "hooks": {"guard": "verif", "enable": "none: the checks read /repo's source; no hook commit exists and nothing is built with a tag",
           "baseline_off_cmd": "cd /repo && GOFLAGS=-mod=mod go test -vet=off -count=1 -timeout 25m ./...",
           "source_commits": [], "add_only": True},
 "engines": [{"name": "mosverif", "path": "/verif/checker", "serves_properties": [c["property_id"] for c in checks],
              "kind_free_text": "Go program: go/packages + go/types + go/ssa (x/tools v0.29.0, vendored); repo-specific rules per property; mutant self-test via go/packages Overlay in the thorough tier"}],
 "checks": checks,
 "notes": "All checks are static: nothing under /repo is executed. Fixed defects are listed in /verif/known_findings.txt (fixed: lines suppress nothing).",
 "not_applicable": na,
}
json.dump(m, open(os.path.join(V, "MANIFEST.json"), "w"), indent=1)
print("checks:", len(checks), "not_applicable:", len(na))
