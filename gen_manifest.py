#!/usr/bin/env python3
"""Generates /verif/MANIFEST.json from the table below (kept next to the checker so that the claimed
level, note and technique of every property live in one reviewed place)."""
import json, os, subprocess

V = os.path.dirname(os.path.abspath(__file__))
props = [json.loads(l) for l in open(os.path.join(V, "properties.jsonl"))]

LEVEL_TEXT = ("Repository-specific static rules over the type-checked SSA form of /repo's current tree. Each rule is a "
              "structural NECESSARY condition of one clause of the property; every instance is enumerated (with a "
              "hand-confirmed minimum count) and must be discharged on every path of the analysed functions, hence for "
              "every input and schedule that can drive them. It decides those clauses, not the run-time behaviour: ")

# id -> (decides, note, technique); ids missing here are listed under not_applicable with NA[id]
TRUST = "Trusted: go/types, go/ssa (x/tools v0.29.0), the Go memory model and the documented semantics of the standard library; lock, field and channel identity is by (type, field), instances are not distinguished; hand-confirmed instance minimums and idiom tables in /verif/checker/rules_*.go. A re-architecture of the anchored mechanism that uses an idiom the rule does not know is reported as undecided (the check fails rather than pass on code it does not understand). "
CLAIMS = {
 "C02": ("reader hand-off channels are buffered at every make site; waiter registered before the write; the wait prefers a delivered reply over the close notification; reader re-arms the read deadline; no exit between write and wait; single waiter slot cleared only by the reader; the frame reader reads only through io.ReadFull; the waiter is registered under the widened 16-bit wire id the reader looks up; every exchange-path function passes on and waits on its own context. Also: reply channels are consumed only by their exchange, which returns what it received; waiters are removed only by deferred calls. The datagram reader offers the whole buffer to every read; the reader may remove a waiter only together with delivering its reply (D13). Not decided: timing.",
         TRUST + "Go channel semantics (a send on a channel with free buffer space never blocks).",
         "SSA value-provenance of channel make sites + dominance / must-pass-through on the CFG"),
 "C04": ("the cache key builder is injective in (AD, CD, DO, 16 type bits, 16 class bits, name): every input bit is the sole dependency of a header bit, the name is copied verbatim, the buffer is fresh and private; non-empty key only for QR=0/QUERY/one question; one key value for lookup and stores. Also: no access to key bytes through sub-slices; the empty key never reaches the backend; no slicing of the key; the dump loader stores under the dumped key. The lazy refresh runs on a context copy taken before the live context moves on. Dump entries pair each key with that entry's own answer bytes. This is the whole property except the semantics of miekg/dns field accessors.",
         TRUST + "miekg/dns Msg.IsEdns0 / OPT.Do as documented; Go string map-key equality.",
         "bit-level dependency abstract interpretation of the key builder (SSA) + guard and provenance rules"),
 "C09": ("lockset on counters, waiter table, flags and connection sets; admission test inside the critical section; exactly-once release and wait-group accounting on every path of both ReservedExchanger implementations; no double counting of in-flight queries; reserved exchangers consumed exactly once by callers; dial only when nothing admitted; dialing limit <= connection limit; a reservation is released only by defer or after its exchange returned; connections change hands only by rendezvous. Also: limit fields come from their options; waiter-table entries and QUIC streams are released on every exit; all ReservedExchanger implementations are known. Not decided: run-time maxima over interleavings.",
         TRUST + "sync.Mutex / sync.WaitGroup semantics.",
         "must-lockset dataflow + exhaustive CFG path enumeration (event counting, typestate of reserved exchangers)"),
 "C11": ("lockset on every shard-map access (R for reads, W for writes); bounded insert only via certified edges inside one critical section; per-shard maximum >= 1 for every configured size (interval analysis of the size clamp); expiry guards in Get and the sweep; the cache uses only the locked, bounded map API; the non-evicting testAndSet is only asked to set keys present under the lock. Also: the size clamp ran on the object the size is read from; one bounded constructor call; shard methods run on the map's own shards; Store always sets unless expired. No lock-order cycle (mutexes and sync.Once) across the cache stack. Not decided: linearizability of histories.",
         TRUST + "sync.RWMutex semantics.",
         "must-lockset dataflow + edge-certified reachability + path-sensitive interval analysis"),
 "C18": ("scheme->default-port table by resolved constants; provenance of every dialled/resolved address from parseDialAddr(trimmed URL host, dial_addr, default); SNI default; bracket trimmer strips exactly what it tested; helper schemes; parse errors propagate; the bootstrap resolver is this upstream's own (own allocation, host/port from the parameters, address joined with its own port). Also: helper bodies (16-bit decimal port parsing, JoinHostPort, SplitHostPort), default port passed on as given, URL/options never rewritten. Forward passes addr / dial_addr / bootstrap / bootstrap_version field by field into NewUpstream. Not decided: string semantics of net/url and net.SplitHostPort over all inputs.",
         TRUST + "net/url, net.SplitHostPort, net.JoinHostPort as documented.",
         "AST table check with type-resolved constants + SSA value-provenance + guard analysis"),
 "C19": ("writer/reader field agreement with per-field sources; item rebuilt from matching getters; block length within [0,limit] at the allocation (interval analysis); every read/decode error leads to an error return, only io.EOF on a block header tolerated; header verified first; expired entries skipped on both sides; only rcodes that pack without OPT are admitted; every decoded entry reaches the store. Also: the unpacked message is untouched before it is stored; writer flush bound coupled to the reader limit (D10); one gzip member; every live entry and the last partial block are written; small reader limit. Not decided: round-trip equality of arbitrary messages, robustness of gzip/protobuf/miekg to arbitrary bytes (trusted).",
         TRUST + "protobuf getters return their field; gzip/protobuf/dns.Msg.Unpack report malformed input as errors.",
         "writer/reader table agreement over SSA stores and getter calls + interval analysis + error-flow rule"),
 "C20": ("own answer queued before the sibling-waking close, 'done' only with an answer; gate select before the secondary's Exec; hold select before a standby answer; <=1 send per path and capacity >= workers; caller loop bound / nil skipping / ctx / failure last; workers on copies taken before go with the caller's deadline. Also: every worker that ran reports; distinct context copies; threshold in milliseconds; exactly the non-nil results are accepted; makeDdlCtx carries the caller's deadline. A worker's deadline context is cancelled only by defer (the context handed on with the reply is live). Not decided: timing relative to the threshold.",
         TRUST + "Go channel FIFO and close semantics.",
         "channel/select structure analysis over SSA (dominance, case-body reachability, path counting)"),
 "C01": ("waiter-table insert only on the absent edge of a same-key lookup in one locked region; reader dispatch by the id at offset 0 of the very buffer handed over, unclaimed buffers released; exchangers never write the caller's query and restore the caller's id on every returned reply; wire id = registered id at the framing's id offset; reply channel made by its own registration; waiter removed on every exit; idle connections handed out once and re-idled only after their reply; module-wide pooled-buffer typestate. Also: every connection Write goes through writeQuery; the wire-id counter advances by one per id; the DoH request URL is call-private. A reply without a waiter closes the connection before any pool write. Not decided: which reply a concrete interleaving delivers.",
         TRUST + "16-bit id wrap assumption of the property itself.",
         "SSA guard/dominance rules + value provenance + buffer typestate (reachability after release) + lockset"),
 "C05": ("admission table expanded over all branches (lifetimes per rcode, cache lifetime = message lifetime except lazy non-empty NOERROR, TC / non-positive refused, one clock reading); store sites; guarded TTL subtraction; hit path guards and stale TTL constant; refresh only inside singleflight, key forgotten only by the refresh function, after the refresh; expiry guards; OPT-skipping TTL loops. Also: SetTTL is exact; the hit path ages a Copy(); one singleflight group; GetMinimalTTL skips nothing; reloaded entries keep their age. Not decided: clock arithmetic at boundaries.",
         TRUST + "x/sync/singleflight de-duplicates per key until Forget.",
         "phi-expansion of lifetime values into a per-rcode case table + guard/dominance rules"),
 "C06": ("errors returned unchanged; walkers/nodes immutable after construction; continuation = (index+1, same chain, same jump-back); accept/reject/return/goto/jump call-graph facts; negation and its parsing; short-circuit to the next rule; end-of-chain jump-back. Also: every matcher passes the negation decision; the rule index advances by exactly one; ExecNext returns only matcher/action/continuation results. Not decided: equivalence with a reference interpreter over all programs.",
         TRUST + "plugins honour the Executable contracts.",
         "who-writes index (immutability) + SSA structure rules on the interpreter loop and built-ins"),
 "C07": ("ctx case in every blocking select; close-notification / dial-finished wake-ups; I/O error => close on every path; close-once with error stored first; transport Close (flag, all conns, dials, entry checks, late dials); goroutine termination table (incl. unbuffered hand-offs that must be outlived by their receiver); bounded deadlines incl. the reader not overriding the waiting-reply deadline; dialled-connection typestate; wait-group accounting; lock order; dialFinished closed at most once (site table); read errors end the read helpers. Also: exact arming condition of the waiting-reply deadline and a flag that tracks remaining waiters (D11); the lazy wrapper closes what it holds; no context-less handshake/dial in pkg/upstream. Every tls.Client in pkg/upstream is handshaken under a context before it is handed out; sync.Once is part of the lock order (D12). The waiting flag is exactly len(waiter table) > 0, stored under the table's lock after the answered entry left it (D13); reuse-transport deadlines are bounded constants armed before the write and never touched after it; a Done case reports the error of the context that fired. Not decided: actual timing.",
         TRUST + "net.Conn deadlines interrupt blocked I/O; sync.Once.",
         "select/channel structure analysis + must-pass-through on the CFG + path-enumerating typestate"),
 "C08": ("retry re-entered exactly under {failed, not new, counter below bound[, ctx live]} with no narrowing condition; <= 4 attempts; is-new flag coincides with the dial; dead connections removed when detected / on close; every read/write error closes the connection on every path (all connection kinds); pooled buffers are not re-sent or released twice across the retry (inter-procedural release). Also: the is-new flag is set unconditionally at the dial; failed attempts surface as non-nil errors promptly. The retry loop, its dials and attempts run under the caller's own context (no added deadline). Not decided: whether the retry succeeds.",
         TRUST,
         "guard-set analysis of the loop back edge + phi case expansion"),
 "C10": ("stored message only Copy()'d / Pack()'d; only fresh messages stored; deep-copy helper uses dns.Copy into fresh slices of a new message; hit gets the query id before the next chain step; lookup returns copies; refresh on a context copy taken before the goroutine. Also: the stored copy has no other user and is created per store; stores are synchronous. Isolation then holds by construction.",
         TRUST + "dns.Msg.Copy / dns.Copy are deep copies.",
         "use-def discipline on the stored-message field + alias (source-derived slice) propagation in the copy helper"),
 "C17": ("TCP exchange exactly under msgTruncated(UDP reply) with its results returned unchanged; non-truncated reply returned as is with no TCP call reachable; msgTruncated == bit 1 of byte 2; same dial address value; same query; received reply bytes are never written except the id restoration; the TCP transport's idle-set discipline (a connection re-enters the idle set only after its reply was read). Also: both exchanges under the caller's context; whole-origin identity of the dial address; datagram buffer >= 4095. Whole property up to the DNS header layout.",
         TRUST,
         "CFG guard/return-shape rules + expression shape of the TC test"),
 "C03": ("malformed queries rejected first with no reply; packed message = plugins' response or SetReply(query)+SERVFAIL/REFUSED; RA forced; OPT re-attached before UDP truncation, truncation iff UDP with a size proven in [512,65535], pack last; provenance of every SetResponse argument from the query it answers; query question/id only modified on a copy or under a deferred restore; redirect reply fix-up; cache key injective in the question; context copies are deep; after validation every return hands back the pack result; the packer returns a pool buffer of its own holding the message and no pooled buffer is used after release (module-wide). Also: FromUDP is set exactly by the datagram server; the deferred restore writes back the saved original; replies are built from the query of the context they are set on. The restored message is the one that was rewritten; stored cache copies share no slice with the live reply. Only five known functions write a message's id/question, SetQuestion only in the bootstrap resolver, one identity-setting call per message and path; dump entries pair each key with its own fresh Pack(). The TCP exchange waits on a reply channel made for it; the datagram buffer is never shortened before a read. Not decided: arbitrary plugin compositions, miekg Truncate/Pack semantics, one reply per request at socket level.",
         TRUST + "dns.Msg.SetReply / Truncate as documented; upstreams echo the question.",
         "guard/dominance rules on the entry handler + inter-procedural value provenance (through channels, fields, calls) + interval analysis"),
 "C12": ("ONLY structural necessary conditions: same normalisation on rule and query side, regexps compiled as written, patterns passed on unchanged, shared label scanner with '.' separator, type dispatch table, lookup precedence, default rule types, deepest-value rule in the trie walk, text-loader line pipeline (recognised clean-up steps, parser runs for every non-empty line, errors reported), the label trie only grows (who-writes table), keyword/regexp lookups consult every rule (no pre-filter). NOT decided: the 'if and only if' over all rule sets and names (trie walk, scanner arithmetic, substring/regexp semantics) — input-quantified algorithmics that no static argument in reach settles.",
         TRUST + "strings / regexp as documented.",
         "agreement rules between sibling Add/Match implementations + dispatch/precedence tables from SSA"),
 "C13": ("ONLY structural necessary conditions: sort-after-last-load typestate of every created list, who-writes of the slice and the sorted flag (true only after sort+merge replaced the slice), same to6 mapping on both sides, +96 bits exactly for IPv4, masked prefixes, Contains refusing unsorted lists, full-length prefixes for bare addresses, text-loader line pipeline (leading blanks stripped before any cut at a blank, '#' comments, parser runs for every non-empty line, errors reported). NOT decided: the 'if and only if' (comparator, merge of covered prefixes, binary search) over all prefix multisets and addresses.",
         TRUST + "net/netip as documented.",
         "path-enumerating typestate + who-writes index + expression-shape rules"),
 "C14": ("helper count in [1,3] by interval analysis; private per-iteration query copy released by its helper, shared packed query not captured; helper send under select with done (closed by defer) and 5 s timeout context; collecting select watches ctx; acceptance rule = {last, NOERROR, NXDOMAIN}, failures skipped, same count in both loops; cyclic selection from a random start; tag handling; raw reply bytes indexed only under a covering length guard; every iteration of the spawning loop starts a helper; the packed query is a pool buffer of its own. Also: returns inside the collecting loop are only accept / context; the wrapper forwards one exchange under its caller's context; helper variables are per-iteration; the helper does not judge rcodes. Not decided: arrival order, timing.",
         TRUST + "math/rand/v2.IntN range.",
         "interval analysis + closure-capture/provenance rules + CFG predecessor-edge analysis of the acceptance block"),
 "C15": ("OPT constructed only by the context helper; option lists written only by the two forwarding plugins; client OPT swapped in place and kept only as clientOpt; resp/upstreamOpt written only by SetResponse (popOpt removes exactly the OPT it found, searching the whole section) and context copy; response OPT iff client OPT, DO mirrored, deep-copied with the context, appended by the handler only when present and at the single pack site; TTL loops skip OPT; cache copy drops OPT; a context copy has its own query message and OPT. Also: exact guards of the pop and of the append; OPT header fields written only where the OPT is made; ecs_handler's forwarding gates. Not decided: messages with several OPT records.",
         TRUST + "miekg/dns OPT accessors.",
         "who-writes / who-constructs index over the whole module + guard rules"),
 "C16": ("every stream Write sends one buffer from a framing constructor (servers: handler invoked with the length-prefixing packer and returning only its result; no vectored/split writes); constructors check len<=65535 first, header uint16(len) at 0 of a len+2 buffer, body at [2:] of the same buffer; reader uses io.ReadFull twice, rejects len<=12 before allocating, exact-size buffer, release on error; all stream readers go through it; every reply source guarantees 12 bytes and every constant-offset access to raw message bytes is below the length implied by guards, construction or origin; no write deadline on a shared server connection unless failed writes close it. Also: WithLengthHeader true for every stream connection; the frame reader reads the connection itself; the handler never writes into packed bytes; read errors end a server connection's read loop. Trusted: io.ReadFull under chunking, write atomicity of one Write call.",
         TRUST + "io.ReadFull semantics; one Write call is not interleaved with others.",
         "value provenance of written buffers + expression-shape rules on constructors and reader"),
}
NA = {}

checks, na = [], []
for p in props:
    pid = p["id"]
    if pid in CLAIMS:
        decides, note, tech = CLAIMS[pid]
        checks.append({
            "property_id": pid,
            "quick_cmd": f"/verif/check.sh {pid} quick",
            "thorough_cmd": f"/verif/check.sh {pid} thorough",
            "evidence_file": f"/verif/evidence/{pid}.json",
            "replay_cmd_template": f"/verif/check.sh {pid} quick  # re-evaluates the obligations listed in {{path}}",
            "engine": "mosverif",
            "level_claimed": {"category": "other", "text": LEVEL_TEXT + decides, "design_ref": f"DESIGN.md §5 {pid}"},
            "level_note": note,
            "technique": "static analysis: " + tech,
        })
    else:
        na.append({"property_id": pid, "reason": NA.get(pid, "static check not implemented yet (build in progress); no claim is made")})

m = {
 "version": 1,
 "setup_cmd": "cd /verif/checker && GOFLAGS=-mod=vendor GOPROXY=off GOSUMDB=off GOTOOLCHAIN=local go build -o /verif/bin/mosverif . && /verif/bin/mosverif warm",
 "hooks": {"guard": "verif", "enable": "none: the checks read /repo's source; no hook commit exists and nothing is built with a tag",
           "baseline_off_cmd": "cd /repo && GOFLAGS=-mod=mod go test -vet=off -count=1 -timeout 25m ./...",
           "source_commits": [], "add_only": True},
 "engines": [{"name": "mosverif", "path": "/verif/checker", "serves_properties": [c["property_id"] for c in checks],
              "kind_free_text": "Go program: go/packages + go/types + go/ssa (x/tools v0.29.0, vendored); repo-specific rules per property; mutant self-test via go/packages Overlay in the thorough tier"}],
 "checks": checks,
 "notes": "All checks are static: nothing under /repo is executed. Fixed defects are listed in /verif/known_findings.txt (fixed: lines suppress nothing).",
 "not_applicable": na,
}
json.dump(m, open(os.path.join(V, "MANIFEST.json"), "w"), indent=1)
print("checks:", len(checks), "not_applicable:", len(na))
