package transport

import (
	"context"
	"errors"
	"io"
	"sync"
	"testing"
	"time"
)

// D12: ReuseConnTransport.Close holds t.m while it closes every connection through closeOnce.Do; a
// connection whose reader fails at the same time runs closeWithErr, which enters the same closeOnce.Do and
// then asks for t.m inside it. Close waits for the Once, the reader waits for the mutex: Close never returns and
// every later call blocks on t.m.
type d12Conn struct {
	mu        sync.Mutex
	readErr   chan struct{} // closed -> Read fails
	closeGate chan struct{} // Close blocks until closed (only for the first connection that is closed)
	first     *sync.Once
	inClose   chan struct{}
}

func (c *d12Conn) Read(b []byte) (int, error) {
	<-c.readErr
	return 0, io.ErrUnexpectedEOF
}
func (c *d12Conn) Write(b []byte) (int, error) { return len(b), nil }
func (c *d12Conn) Close() error {
	held := false
	c.first.Do(func() { held = true })
	if held {
		close(c.inClose)
		<-c.closeGate
	}
	return nil
}
func (c *d12Conn) SetDeadline(time.Time) error      { return nil }
func (c *d12Conn) SetReadDeadline(time.Time) error  { return nil }
func (c *d12Conn) SetWriteDeadline(time.Time) error { return nil }

func Test_D12_CloseWhileAReaderFails(t *testing.T) {
	first := new(sync.Once)
	gate := make(chan struct{})
	inClose := make(chan struct{})
	var conns []*d12Conn
	var mu sync.Mutex
	tr := NewReuseConnTransport(ReuseConnOpts{DialContext: func(ctx context.Context) (NetConn, error) {
		c := &d12Conn{readErr: make(chan struct{}), closeGate: gate, first: first, inClose: inClose}
		mu.Lock()
		conns = append(conns, c)
		mu.Unlock()
		return c, nil
	}})
	// two registered connections
	for i := 0; i < 2; i++ {
		rc, err := tr.getNewConn(context.Background())
		if err != nil || rc == nil {
			t.Fatal(err)
		}
		tr.setIdle(rc)
	}
	closed := make(chan struct{})
	go func() { tr.Close(); close(closed) }()
	<-inClose // Close holds t.m and is inside the first connection's Close()
	// the reader of the OTHER connection fails now
	mu.Lock()
	for _, c := range conns {
		select {
		case <-c.readErr:
		default:
			close(c.readErr)
		}
	}
	mu.Unlock()
	time.Sleep(200 * time.Millisecond) // the failing reader is inside closeOnce.Do, waiting for t.m
	close(gate)
	select {
	case <-closed:
	case <-time.After(3 * time.Second):
		t.Fatal("ReuseConnTransport.Close did not return within 3s: it waits for a connection's closeOnce while that connection's reader, inside the same Once, waits for t.m (held by Close)")
	}
	ctx, cancel := context.WithTimeout(context.Background(), time.Second)
	defer cancel()
	if _, err := tr.ExchangeContext(ctx, make([]byte, 12)); !errors.Is(err, ErrClosedTransport) {
		t.Fatalf("call after Close: %v", err)
	}
}
