package cache

import (
	"context"
	"strconv"
	"sync/atomic"
	"testing"
	"time"

	"github.com/IrineSistiana/mosdns/v5/pkg/query_context"
	"github.com/IrineSistiana/mosdns/v5/plugin/executable/dual_selector"
	"github.com/IrineSistiana/mosdns/v5/plugin/executable/sequence"
	"github.com/miekg/dns"
	"go.uber.org/zap"
)

// Chain under test (all real plugins except the upstream):
//
//   - exec: cache
//   - exec: prefer_ipv6
//   - matches: "!has_resp"
//     exec: <upstream>
//
// The upstream answers "v4only.test. A" with one A record, ttl 2, and
// "v4only.test. AAAA" with an empty NOERROR. A client asks for the A record
// every 400ms. The answer that was obtained at t0 with ttl 2 must not be
// served from the cache after t0+2s: the upstream has to be asked again.
func TestZZAuditServedCopyIsReadmitted(t *testing.T) {
	for _, lazy := range []int{0, 3600} {
		lazy := lazy
		t.Run("lazy_cache_ttl="+strconv.Itoa(lazy), func(t *testing.T) {
			c := NewCache(&Args{Size: 4096, LazyCacheTTL: lazy}, Opts{})
			sel := dual_selector.NewPreferIpv6(sequence.NewBQ(nil, zap.NewNop()))

			var upstreamA atomic.Int32
			upstream := sequence.ExecutableFunc(func(ctx context.Context, qCtx *query_context.Context) error {
				q := qCtx.Q()
				r := new(dns.Msg)
				r.SetReply(q)
				if q.Question[0].Qtype == dns.TypeA {
					upstreamA.Add(1)
					r.Answer = append(r.Answer, &dns.A{
						Hdr: dns.RR_Header{Name: q.Question[0].Name, Rrtype: dns.TypeA, Class: dns.ClassINET, Ttl: 2},
						A:   []byte{192, 0, 2, 1},
					})
				}
				qCtx.SetResponse(r)
				return nil
			})
			noResp := sequence.MatchFunc(func(_ context.Context, qCtx *query_context.Context) (bool, error) {
				return qCtx.R() == nil, nil
			})
			chain := []*sequence.ChainNode{
				{RE: c},
				{RE: sel},
				{Matches: []sequence.Matcher{noResp}, E: upstream},
			}

			ask := func() *dns.Msg {
				q := new(dns.Msg)
				q.SetQuestion("v4only.test.", dns.TypeA)
				qCtx := query_context.NewContext(q)
				w := sequence.NewChainWalker(chain, nil)
				ctx, cancel := context.WithTimeout(context.Background(), time.Second*2)
				defer cancel()
				if err := w.ExecNext(ctx, qCtx); err != nil {
					t.Fatal(err)
				}
				if qCtx.R() == nil || len(qCtx.R().Answer) != 1 {
					t.Fatalf("no answer: %v", qCtx.R())
				}
				return qCtx.R()
			}

			start := time.Now()
			ask()
			if n := upstreamA.Load(); n != 1 {
				t.Fatalf("upstream asked %d times by the first query", n)
			}
			for time.Since(start) < 5*time.Second {
				time.Sleep(400 * time.Millisecond)
				before := upstreamA.Load()
				r := ask()
				age := time.Since(start)
				fresh := upstreamA.Load() != before
				if lazy == 0 {
					if age > 2500*time.Millisecond && upstreamA.Load() == 1 {
						t.Fatalf("lazy=%d: the answer received %v ago with ttl 2 is still served from the cache, ttl %d, upstream asked %d time(s)",
							lazy, age.Round(time.Millisecond), r.Answer[0].Header().Ttl, upstreamA.Load())
					}
				} else {
					// lazy cache: after 2s the answer is stale: it may be served, but only
					// with ttl 5 and with a refresh, which asks the upstream.
					if age > 2500*time.Millisecond && upstreamA.Load() == 1 {
						t.Fatalf("lazy=%d: the answer received %v ago with ttl 2 is still served as a fresh answer, ttl %d, no refresh was started (upstream asked %d time(s))",
							lazy, age.Round(time.Millisecond), r.Answer[0].Header().Ttl, upstreamA.Load())
					}
				}
				_ = fresh
			}
			c.Close()
			sel.Close()
		})
	}
}
