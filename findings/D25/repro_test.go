package upstream

import (
	"bytes"
	"context"
	"encoding/binary"
	"io"
	"net"
	"sync/atomic"
	"testing"
	"time"

	"github.com/miekg/dns"
)

// auditHarness is a raw dns server that listens on the same port with udp and tcp.
type auditHarness struct {
	addr string
	uc   net.PacketConn
	tl   net.Listener

	udpQueries atomic.Int32
	tcpConns   atomic.Int32
	tcpQueries atomic.Int32

	// udpReply / tcpReply build the raw reply for the raw query. nil reply: no answer.
	udpReply func(q []byte) []byte
	tcpReply func(q []byte) []byte
}

func newAuditHarness(t *testing.T, udpReply, tcpReply func(q []byte) []byte) *auditHarness {
	t.Helper()
	var h *auditHarness
	for i := 0; i < 20; i++ {
		tl, err := net.Listen("tcp", "127.0.0.1:0")
		if err != nil {
			t.Fatal(err)
		}
		uc, err := net.ListenPacket("udp", tl.Addr().String())
		if err != nil {
			tl.Close()
			continue
		}
		h = &auditHarness{addr: tl.Addr().String(), uc: uc, tl: tl, udpReply: udpReply, tcpReply: tcpReply}
		break
	}
	if h == nil {
		t.Fatal("cannot listen on the same udp and tcp port")
	}
	t.Cleanup(func() { h.uc.Close(); h.tl.Close() })

	go func() {
		b := make([]byte, 65535)
		for {
			n, from, err := h.uc.ReadFrom(b)
			if err != nil {
				return
			}
			h.udpQueries.Add(1)
			if r := h.udpReply(append([]byte(nil), b[:n]...)); r != nil {
				h.uc.WriteTo(r, from)
			}
		}
	}()
	go func() {
		for {
			c, err := h.tl.Accept()
			if err != nil {
				return
			}
			h.tcpConns.Add(1)
			go func() {
				defer c.Close()
				for {
					var l [2]byte
					if _, err := io.ReadFull(c, l[:]); err != nil {
						return
					}
					q := make([]byte, binary.BigEndian.Uint16(l[:]))
					if _, err := io.ReadFull(c, q); err != nil {
						return
					}
					h.tcpQueries.Add(1)
					r := h.tcpReply(q)
					if r == nil {
						return
					}
					out := make([]byte, 2+len(r))
					binary.BigEndian.PutUint16(out, uint16(len(r)))
					copy(out[2:], r)
					if _, err := c.Write(out); err != nil {
						return
					}
				}
			}()
		}
	}()
	return h
}

// truncatedHeaderOnly is what a server sends over udp when nothing fits: the header
// of the query with QR and TC set and all counts cleared... here the question is kept.
func auditTcReply(q []byte) []byte {
	r := append([]byte(nil), q...)
	r[2] |= 0x80 | 0x02 // QR, TC
	return r
}

// Finding 2: a udp reply without TC that is larger than 4095 bytes. The query
// advertises a 8192 bytes udp payload size (EDNS0), so the server is allowed to send it.
func TestAudit_BigUdpReplyNoTC(t *testing.T) {
	for _, size := range []int{4095, 4096, 5000, 8192} {
		size := size
		t.Run("", func(t *testing.T) {
			var sent atomic.Pointer[[]byte]
			bigReply := func(qb []byte) []byte {
				q := new(dns.Msg)
				if err := q.Unpack(qb); err != nil {
					return nil
				}
				r := new(dns.Msg)
				r.SetReply(q)
				for i := 0; ; i++ {
					r.Answer = append(r.Answer, &dns.TXT{
						Hdr: dns.RR_Header{Name: q.Question[0].Name, Rrtype: dns.TypeTXT, Class: dns.ClassINET, Ttl: 60},
						Txt: []string{string(bytes.Repeat([]byte{'a' + byte(i%26)}, 200))},
					})
					if r.Len() > size-300 {
						break
					}
				}
				r.SetEdns0(8192, false)
				opt := r.IsEdns0()
				padLen := size - r.Len() - 4
				opt.Option = append(opt.Option, &dns.EDNS0_PADDING{Padding: make([]byte, padLen)})
				b, err := r.Pack()
				if err != nil || len(b) != size {
					panic("harness bug")
				}
				sent.Store(&b)
				return b
			}
			h := newAuditHarness(t, bigReply, func(q []byte) []byte { return nil })
			u, err := NewUpstream("udp://"+h.addr, Opt{})
			if err != nil {
				t.Fatal(err)
			}
			defer u.Close()

			q := new(dns.Msg)
			q.SetQuestion("example.com.", dns.TypeTXT)
			q.SetEdns0(8192, false)
			q.Id = 0x4321
			qb, _ := q.Pack()
			ctx, cancel := context.WithTimeout(context.Background(), time.Second*3)
			defer cancel()
			r, err := u.ExchangeContext(ctx, qb)
			if err != nil {
				t.Fatal(err)
			}
			want := append([]byte(nil), *sent.Load()...)
			binary.BigEndian.PutUint16(want, q.Id) // the upstream restores the id of the query
			if want[2]&0x02 != 0 {
				t.Fatal("harness bug: TC set")
			}
			t.Logf("server sent %d bytes without TC, caller got %d bytes, tcp conns %d", len(want), len(*r), h.tcpConns.Load())
			if !bytes.Equal(*r, want) {
				um := new(dns.Msg)
				t.Errorf("reply without TC was not returned as it is: sent %d bytes, got %d bytes (unpack err of what the caller got: %v)", len(want), len(*r), um.Unpack(*r))
			}
		})
	}
}
