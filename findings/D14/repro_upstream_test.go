package upstream

import (
	"bytes"
	"context"
	"encoding/binary"
	"io"
	"net"
	"sync/atomic"
	"testing"
	"time"

	"github.com/miekg/dns"
)

// auditHarness is a raw dns server that listens on the same port with udp and tcp.
type auditHarness struct {
	addr string
	uc   net.PacketConn
	tl   net.Listener

	udpQueries atomic.Int32
	tcpConns   atomic.Int32
	tcpQueries atomic.Int32

	// udpReply / tcpReply build the raw reply for the raw query. nil reply: no answer.
	udpReply func(q []byte) []byte
	tcpReply func(q []byte) []byte
}

func newAuditHarness(t *testing.T, udpReply, tcpReply func(q []byte) []byte) *auditHarness {
	t.Helper()
	var h *auditHarness
	for i := 0; i < 20; i++ {
		tl, err := net.Listen("tcp", "127.0.0.1:0")
		if err != nil {
			t.Fatal(err)
		}
		uc, err := net.ListenPacket("udp", tl.Addr().String())
		if err != nil {
			tl.Close()
			continue
		}
		h = &auditHarness{addr: tl.Addr().String(), uc: uc, tl: tl, udpReply: udpReply, tcpReply: tcpReply}
		break
	}
	if h == nil {
		t.Fatal("cannot listen on the same udp and tcp port")
	}
	t.Cleanup(func() { h.uc.Close(); h.tl.Close() })

	go func() {
		b := make([]byte, 65535)
		for {
			n, from, err := h.uc.ReadFrom(b)
			if err != nil {
				return
			}
			h.udpQueries.Add(1)
			if r := h.udpReply(append([]byte(nil), b[:n]...)); r != nil {
				h.uc.WriteTo(r, from)
			}
		}
	}()
	go func() {
		for {
			c, err := h.tl.Accept()
			if err != nil {
				return
			}
			h.tcpConns.Add(1)
			go func() {
				defer c.Close()
				for {
					var l [2]byte
					if _, err := io.ReadFull(c, l[:]); err != nil {
						return
					}
					q := make([]byte, binary.BigEndian.Uint16(l[:]))
					if _, err := io.ReadFull(c, q); err != nil {
						return
					}
					h.tcpQueries.Add(1)
					r := h.tcpReply(q)
					if r == nil {
						return
					}
					out := make([]byte, 2+len(r))
					binary.BigEndian.PutUint16(out, uint16(len(r)))
					copy(out[2:], r)
					if _, err := c.Write(out); err != nil {
						return
					}
				}
			}()
		}
	}()
	return h
}

// truncatedHeaderOnly is what a server sends over udp when nothing fits: the header
// of the query with QR and TC set and all counts cleared... here the question is kept.
func auditTcReply(q []byte) []byte {
	r := append([]byte(nil), q...)
	r[2] |= 0x80 | 0x02 // QR, TC
	return r
}

// Finding 1: the tcp reply is a legal header-only message (12 bytes). e.g. what
// miekg/dns SetRcodeFormatError, or a server that doesn't copy the question section
// into REFUSED/NOTIMP/FORMERR replies, sends.
func TestAudit_TcpReplyHeaderOnly(t *testing.T) {
	headerOnly := func(q []byte) []byte {
		r := make([]byte, 12)
		copy(r, q[:2])          // id
		r[2] = 0x80 | q[2]&0x01 // QR, RD copied
		r[3] = 0x80 | 5         // RA, REFUSED
		return r                // all counts zero
	}
	h := newAuditHarness(t, auditTcReply, headerOnly)

	// sanity: the reply is a valid dns message.
	if err := new(dns.Msg).Unpack(headerOnly(make([]byte, 12))); err != nil {
		t.Fatalf("harness bug, header only reply is not valid: %v", err)
	}

	u, err := NewUpstream("udp://"+h.addr, Opt{})
	if err != nil {
		t.Fatal(err)
	}
	defer u.Close()

	q := new(dns.Msg)
	q.SetQuestion("example.com.", dns.TypeA)
	q.Id = 0x1234
	qb, _ := q.Pack()

	ctx, cancel := context.WithTimeout(context.Background(), time.Second*3)
	defer cancel()
	r, err := u.ExchangeContext(ctx, qb)
	t.Logf("udp queries %d, tcp conns %d, tcp queries %d", h.udpQueries.Load(), h.tcpConns.Load(), h.tcpQueries.Load())
	if err != nil {
		t.Fatalf("the tcp server answered the retried query, but the caller got an error instead of the tcp reply: %v", err)
	}
	if want := headerOnly(qb); !bytes.Equal(*r, want) {
		t.Fatalf("want tcp reply %x, got %x", want, *r)
	}
}

// Control for finding 1: the very same 12 bytes reply is accepted and returned
// when it comes over udp.
func TestAudit_UdpReplyHeaderOnly_Control(t *testing.T) {
	headerOnly := func(q []byte) []byte {
		r := make([]byte, 12)
		copy(r, q[:2])
		r[2] = 0x80 | q[2]&0x01
		r[3] = 0x80 | 5
		return r
	}
	h := newAuditHarness(t, headerOnly, func(q []byte) []byte { return nil })
	u, err := NewUpstream("udp://"+h.addr, Opt{})
	if err != nil {
		t.Fatal(err)
	}
	defer u.Close()
	q := new(dns.Msg)
	q.SetQuestion("example.com.", dns.TypeA)
	q.Id = 0x1234
	qb, _ := q.Pack()
	ctx, cancel := context.WithTimeout(context.Background(), time.Second*3)
	defer cancel()
	r, err := u.ExchangeContext(ctx, qb)
	if err != nil {
		t.Fatal(err)
	}
	if want := headerOnly(qb); !bytes.Equal(*r, want) {
		t.Fatalf("want %x, got %x", want, *r)
	}
	if n := h.tcpConns.Load(); n != 0 {
		t.Fatalf("tcp conn opened: %d", n)
	}
}
