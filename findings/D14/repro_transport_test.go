package transport

import (
	"context"
	"encoding/binary"
	"io"
	"net"
	"testing"
	"time"
)

// Impact of the same boundary on a pipelined TCP/DoT upstream connection: the
// upstream answers one query with a header-only (12-byte) FORMERR reply. The
// reply is a correct frame, but the reader treats it as a framing error and
// closes the whole connection, so the query gets an error instead of its reply
// (and every other in-flight query on the connection fails too).
func TestAuditHeaderOnlyReplyOnPipeline(t *testing.T) {
	c1, c2 := net.Pipe()
	defer c2.Close()
	go func() {
		var h [2]byte
		if _, err := io.ReadFull(c2, h[:]); err != nil {
			return
		}
		q := make([]byte, binary.BigEndian.Uint16(h[:]))
		if _, err := io.ReadFull(c2, q); err != nil {
			return
		}
		r := make([]byte, 2+12)
		binary.BigEndian.PutUint16(r, 12)
		copy(r[2:4], q[:2]) // id
		r[4] = 0x80         // QR
		r[5] = 0x01         // FORMERR
		c2.Write(r)
	}()
	dc := NewDnsConn(TraditionalDnsConnOpts{WithLengthHeader: true}, c1)
	defer dc.Close()
	q := make([]byte, 29)
	binary.BigEndian.PutUint16(q, 0xbeef)
	ctx, cancel := context.WithTimeout(context.Background(), 3*time.Second)
	defer cancel()
	r, err := dc.exchange(ctx, q)
	if err != nil {
		t.Fatalf("header-only reply was not delivered: %v (conn closed: %v)", err, dc.IsClosed())
	}
	if len(*r) != 12 || binary.BigEndian.Uint16(*r) != 0xbeef || (*r)[3] != 1 {
		t.Fatalf("reply changed: %x", *r)
	}
}
