package dnsutils

import (
	"bytes"
	"testing"

	"github.com/miekg/dns"
)

// A DNS message that consists of the 12-byte header only (no question) is a
// legal message: e.g. a FORMERR/NOTIMP/REFUSED reply to a query the server
// could not parse. DnsHeaderLen is documented as "minimum dns msg size".
// WriteMsgToTCP/WriteRawMsgToTCP frame it, ReadRawMsgFromTCP refuses it.
func TestAuditHeaderOnlyMsgRoundTrip(t *testing.T) {
	m := new(dns.Msg)
	m.Id = 0x1234
	m.Response = true
	m.Rcode = dns.RcodeFormatError

	var buf bytes.Buffer
	n, err := WriteMsgToTCP(&buf, m)
	if err != nil {
		t.Fatalf("write: %v", err)
	}
	if n != 2+DnsHeaderLen {
		t.Fatalf("wrote %d bytes", n)
	}
	got, rn, err := ReadMsgFromTCP(&buf)
	if err != nil {
		t.Fatalf("a %d-byte message written by WriteMsgToTCP cannot be read back: %v", n-2, err)
	}
	if rn != n || got.Id != m.Id || got.Rcode != m.Rcode || !got.Response {
		t.Fatalf("message changed: %v", got)
	}

	// a length that announces LESS than a header is still refused
	if _, _, err := ReadMsgFromTCP(bytes.NewReader(append([]byte{0, 11}, make([]byte, 11)...))); err == nil {
		t.Fatal("11-byte message accepted")
	}
}
