package upstream

import (
	"context"
	"os"
	"runtime"
	"strings"
	"testing"
	"time"
)

func auditCountFds(t *testing.T) int {
	ents, err := os.ReadDir("/proc/self/fd")
	if err != nil {
		t.Skip("no /proc/self/fd")
	}
	return len(ents)
}

func auditGoroutinesWith(sub string) []string {
	buf := make([]byte, 4<<20)
	n := runtime.Stack(buf, true)
	var out []string
	for _, g := range strings.Split(string(buf[:n]), "\n\n") {
		if strings.Contains(g, sub) {
			out = append(out, g)
		}
	}
	return out
}

// A DoQ upstream opens an udp socket (and, at the first dial, quic.Transport goroutines).
// Close() must release them.
func TestAuditDoQCloseReleasesSocket(t *testing.T) {
	before := auditCountFds(t)
	const n = 16
	for i := 0; i < n; i++ {
		u, err := NewUpstream("quic://127.0.0.1:1", Opt{})
		if err != nil {
			t.Fatal(err)
		}
		u.Close()
	}
	time.Sleep(100 * time.Millisecond)
	after := auditCountFds(t)
	if after > before {
		t.Errorf("%d upstreams created and closed: open fds %d -> %d", n, before, after)
	}
}

func TestAuditDoQCloseReleasesGoroutines(t *testing.T) {
	u, err := NewUpstream("quic://127.0.0.1:1", Opt{})
	if err != nil {
		t.Fatal(err)
	}
	ctx, cancel := context.WithTimeout(context.Background(), 200*time.Millisecond)
	defer cancel()
	q := make([]byte, 17)
	q[5], q[14], q[16] = 1, 1, 1
	_, err = u.ExchangeContext(ctx, q)
	if err == nil {
		t.Fatal("unexpected success")
	}
	u.Close()
	if _, err := u.ExchangeContext(context.Background(), q); err == nil {
		t.Fatal("exchange after close succeeded")
	}
	deadline := time.Now().Add(3 * time.Second)
	for {
		gs := auditGoroutinesWith("quic-go")
		if len(gs) == 0 {
			return
		}
		if time.Now().After(deadline) {
			t.Fatalf("%d quic goroutines are still running after Close:\n%s", len(gs), strings.Join(gs, "\n\n"))
		}
		time.Sleep(20 * time.Millisecond)
	}
}

// Same root cause on the DoH3 path: quic.Transport.Close() does not close a
// user supplied Conn.
func TestAuditH3CloseReleasesSocket(t *testing.T) {
	before := auditCountFds(t)
	const n = 16
	for i := 0; i < n; i++ {
		u, err := NewUpstream("h3://127.0.0.1:1/dns-query", Opt{})
		if err != nil {
			t.Fatal(err)
		}
		u.Close()
	}
	time.Sleep(100 * time.Millisecond)
	after := auditCountFds(t)
	if after > before {
		t.Errorf("%d upstreams created and closed: open fds %d -> %d", n, before, after)
	}
}
