package transport

import (
	"context"
	"encoding/binary"
	"io"
	"net"
	"sync/atomic"
	"testing"
	"time"

	"github.com/IrineSistiana/mosdns/v5/pkg/pool"
	"github.com/miekg/dns"
)

// ---- helpers (server side uses plain io, never the pool) ----

func a8Query(t *testing.T, name string, id uint16) []byte {
	t.Helper()
	m := new(dns.Msg)
	m.SetQuestion(name, dns.TypeA)
	m.Id = id
	b, err := m.Pack()
	if err != nil {
		t.Fatal(err)
	}
	return b
}

// a8Reply builds the reply a well-behaved server produces for the raw query q.
func a8Reply(t *testing.T, q []byte) []byte {
	t.Helper()
	m := new(dns.Msg)
	if err := m.Unpack(q); err != nil {
		t.Fatal(err)
	}
	r := new(dns.Msg)
	r.SetReply(m)
	b, err := r.Pack()
	if err != nil {
		t.Fatal(err)
	}
	return b
}

func a8ReadFrame(c io.Reader) ([]byte, error) {
	var h [2]byte
	if _, err := io.ReadFull(c, h[:]); err != nil {
		return nil, err
	}
	b := make([]byte, binary.BigEndian.Uint16(h[:]))
	if _, err := io.ReadFull(c, b); err != nil {
		return nil, err
	}
	return b, nil
}

func a8WriteFrame(c io.Writer, m []byte) error {
	b := make([]byte, 2+len(m))
	binary.BigEndian.PutUint16(b, uint16(len(m)))
	copy(b[2:], m)
	_, err := c.Write(b)
	return err
}

func a8Describe(b []byte) (id uint16, qname string) {
	m := new(dns.Msg)
	if err := m.Unpack(b); err != nil || len(m.Question) == 0 {
		return binary.BigEndian.Uint16(b), "<unparsable>"
	}
	return m.Id, m.Question[0].Name
}

// a8HonestServer answers every query on c with its own reply, one reply per query.
func a8HonestServer(c net.Conn) {
	defer c.Close()
	for {
		q, err := a8ReadFrame(c)
		if err != nil {
			return
		}
		m := new(dns.Msg)
		if m.Unpack(q) != nil {
			return
		}
		r := new(dns.Msg)
		r.SetReply(m)
		b, _ := r.Pack()
		if a8WriteFrame(c, b) != nil {
			return
		}
	}
}

// a8Hook is a schedule point built on the exported hook pool.ReleaseBuf. It is installed
// once, before any goroutine exists, and is a pass-through unless armed. When armed, the
// first release of a 2 byte (cap 3) buffer blocks until the gate is opened: that buffer is
// the header buffer of the connection reader's dnsutils.ReadRawMsgFromTCP, which is
// released (deferred) after the whole message was read and before the reader's readLoop
// looks at waitingResp.
var a8Hook struct {
	armed   atomic.Bool
	reached atomic.Pointer[chan struct{}]
	gate    atomic.Pointer[chan struct{}]
}

func init() {
	orgRelease := pool.ReleaseBuf
	pool.ReleaseBuf = func(b *[]byte) {
		if cap(*b) == 3 && a8Hook.armed.CompareAndSwap(true, false) {
			close(*a8Hook.reached.Load())
			<-*a8Hook.gate.Load()
		}
		orgRelease(b)
	}
}

type a8Res struct {
	r   *[]byte
	err error
}

// Finding 1.
//
// History (non-pipelined tcp/dot transport, one connection):
//  1. A (a.test., id 0x1111) is sent, the server replies, A returns. The connection is idle.
//  2. While the connection is idle the server sends a surplus reply (a duplicate of A's reply).
//     The connection reader reads it completely. The property demands that this closes
//     the connection.
//  3. Schedule: the reader goroutine is preempted between "message read" and "look at
//     waitingResp" (forced here by wrapping the exported hook pool.ReleaseBuf, which
//     dnsutils.ReadRawMsgFromTCP calls on its 2 byte header buffer right before it returns).
//     Meanwhile B (b.test., id 0x2222) takes the connection from the idle set, registers
//     itself in waitingResp and writes its query.
//  4. The reader resumes, finds B's channel, and hands A's duplicate to B.
//  5. The connection is marked idle again although B's real reply is still outstanding.
//     C (c.test., id 0x3333) takes it; the server now answers B's query (it is allowed to
//     be slow); C gets B's reply. The connection stays shifted by one.
func TestAudit_ReuseConn_SurplusReplyWhileIdle_IsDeliveredToNextCaller(t *testing.T) {
	firstSrv := make(chan net.Conn, 1)
	var dialed atomic.Int32
	tr := NewReuseConnTransport(ReuseConnOpts{
		DialContext: func(ctx context.Context) (NetConn, error) {
			cli, srv := net.Pipe()
			if dialed.Add(1) == 1 {
				firstSrv <- srv // the test plays the server on the first connection
			} else {
				go a8HonestServer(srv) // any further connection: a perfect server
			}
			return cli, nil
		},
		IdleTimeout: time.Second * 30,
	})
	defer tr.Close()

	// Schedule point, see a8Hook below.
	reached := make(chan struct{})
	gate := make(chan struct{})
	a8Hook.reached.Store(&reached)
	a8Hook.gate.Store(&gate)
	armed := &a8Hook.armed

	ctx, cancel := context.WithTimeout(context.Background(), time.Second*5)
	defer cancel()

	qA := a8Query(t, "a.test.", 0x1111)
	qB := a8Query(t, "b.test.", 0x2222)
	qC := a8Query(t, "c.test.", 0x3333)

	// 1. A
	resA := make(chan a8Res, 1)
	go func() { r, err := tr.ExchangeContext(ctx, qA); resA <- a8Res{r, err} }()
	srv := <-firstSrv
	defer srv.Close()
	gotQA, err := a8ReadFrame(srv)
	if err != nil {
		t.Fatal(err)
	}
	replyA := a8Reply(t, gotQA)
	if err := a8WriteFrame(srv, replyA); err != nil {
		t.Fatal(err)
	}
	ra := <-resA
	if ra.err != nil {
		t.Fatalf("A failed: %v", ra.err)
	}
	if id, name := a8Describe(*ra.r); id != 0x1111 || name != "a.test." {
		t.Fatalf("A got id=%#x q=%s", id, name)
	}
	tr.m.Lock()
	idle := len(tr.idleConns)
	tr.m.Unlock()
	if idle != 1 {
		t.Fatalf("connection should be idle now, idle=%d", idle)
	}

	// 2. surplus reply while idle, read completely by the reader.
	armed.Store(true)
	go a8WriteFrame(srv, replyA)
	select {
	case <-reached:
	case <-time.After(time.Second * 3):
		t.Fatal("reader did not read the surplus reply")
	}
	tr.m.Lock()
	idle = len(tr.idleConns)
	tr.m.Unlock()
	if idle != 1 {
		t.Fatalf("connection should still be idle when the surplus reply has been read, idle=%d", idle)
	}

	// 3. B takes the connection and writes its query, then the reader resumes.
	resB := make(chan a8Res, 1)
	go func() { r, err := tr.ExchangeContext(ctx, qB); resB <- a8Res{r, err} }()
	gotQB, err := a8ReadFrame(srv)
	if err != nil {
		t.Fatal(err)
	}
	close(gate)

	// 5. the server answers B's query as soon as it sees the next query on this connection
	// (if the connection was closed, as the property demands, this goroutine just ends).
	go func() {
		if _, err := a8ReadFrame(srv); err != nil {
			return
		}
		a8WriteFrame(srv, a8Reply(t, gotQB))
	}()

	// 4. B must get the reply for b.test. with id 0x2222 (from a new connection after the
	// surplus reply closed this one), or fail. It must never get A's reply.
	rb := <-resB
	if rb.err == nil {
		if id, name := a8Describe(*rb.r); id != 0x2222 || name != "b.test." {
			t.Errorf("B (id=0x2222 q=b.test.) succeeded with a reply that is not its own: id=%#x q=%s", id, name)
		}
	} else {
		t.Logf("B failed (allowed): %v", rb.err)
	}

	rc := make(chan a8Res, 1)
	go func() { r, err := tr.ExchangeContext(ctx, qC); rc <- a8Res{r, err} }()
	c := <-rc
	if c.err == nil {
		if id, name := a8Describe(*c.r); id != 0x3333 || name != "c.test." {
			t.Errorf("C (id=0x3333 q=c.test.) succeeded with a reply that is not its own: id=%#x q=%s", id, name)
		}
	} else {
		t.Logf("C failed (allowed): %v", c.err)
	}
}

// Finding 1, second face of the same root cause (the non-pipelined transport never looks
// at the reply's ID). The server sends exactly one reply per query, but the reply carries
// an ID (and question) that matches no outstanding query. It must be discarded, never
// delivered. No schedule forcing needed.
func TestAudit_ReuseConn_StrayIdReply_IsDelivered(t *testing.T) {
	tr := NewReuseConnTransport(ReuseConnOpts{
		DialContext: func(ctx context.Context) (NetConn, error) {
			cli, srv := net.Pipe()
			go func() {
				defer srv.Close()
				for {
					if _, err := a8ReadFrame(srv); err != nil {
						return
					}
					stray := a8Reply(t, a8Query(t, "stray.test.", 0xBEEF))
					if a8WriteFrame(srv, stray) != nil {
						return
					}
				}
			}()
			return cli, nil
		},
	})
	defer tr.Close()

	ctx, cancel := context.WithTimeout(context.Background(), time.Second*2)
	defer cancel()
	for _, id := range []uint16{0, 0xFFFF, 0x1234} {
		r, err := tr.ExchangeContext(ctx, a8Query(t, "mine.test.", id))
		if err != nil {
			t.Logf("id %#x: failed (allowed): %v", id, err)
			continue
		}
		if gotId, name := a8Describe(*r); gotId != id || name != "mine.test." {
			t.Errorf("call (id=%#x q=mine.test.) succeeded with a stray reply: id=%#x q=%s", id, gotId, name)
		}
	}
}
