package transport

import (
	"context"
	"encoding/binary"
	"errors"
	"net"
	"sync"
	"testing"
	"time"

	"github.com/IrineSistiana/mosdns/v5/pkg/dnsutils"
	"github.com/IrineSistiana/mosdns/v5/pkg/pool"
	"github.com/miekg/dns"
)

// A pipelining (TCP framing) server on a net.Pipe. It never answers the queries
// whose question name is "hold." and echoes every other query immediately.
func auditStartSelectiveServer(t *testing.T) (client net.Conn, unanswered func() int) {
	c1, c2 := net.Pipe()
	var mu sync.Mutex
	held := 0
	go func() {
		defer c2.Close()
		for {
			m, err := dnsutils.ReadRawMsgFromTCP(c2)
			if err != nil {
				return
			}
			// question name starts at offset 12: "\x04hold\x00"
			if len(*m) > 17 && string((*m)[12:18]) == "\x04hold\x00" {
				mu.Lock()
				held++
				mu.Unlock()
				pool.ReleaseBuf(m)
				continue
			}
			(*m)[2] |= 0x80 // QR
			if _, err := dnsutils.WriteRawMsgToTCP(c2, *m); err != nil {
				return
			}
			pool.ReleaseBuf(m)
		}
	}()
	return c1, func() int { mu.Lock(); defer mu.Unlock(); return held }
}

// Finding 1: a live connection that holds 100 unanswered queries (limit 4096, the
// limit upstream.go uses for UDP) refuses a new query with "too many queries" once
// the 16 bit id counter wrapped around to the ids of those 100 queries.
func Test_Audit_QidProbeLimitRefusesBelowLimit(t *testing.T) {
	const limit = 4096
	const heldN = 100

	c, unanswered := auditStartSelectiveServer(t)
	dc := NewDnsConn(TraditionalDnsConnOpts{
		WithLengthHeader:   true,
		IdleTimeout:        time.Minute,
		MaxConcurrentQuery: limit,
	}, c)
	defer dc.Close()

	pack := func(name string) []byte {
		q := new(dns.Msg)
		q.SetQuestion(name, dns.TypeA)
		b, err := q.Pack()
		if err != nil {
			t.Fatal(err)
		}
		return b
	}
	holdQ := pack("hold.")
	okQ := pack("ok.")

	// 100 consecutive queries that the server is slow to answer (here: never).
	holdCtx, cancelHold := context.WithCancel(context.Background())
	defer cancelHold()
	var wg sync.WaitGroup
	defer wg.Wait()
	defer cancelHold()
	for i := 0; i < heldN; i++ {
		rec, closed := dc.ReserveNewQuery()
		if rec == nil || closed {
			t.Fatalf("cannot reserve held query %d", i)
		}
		wg.Add(1)
		go func() {
			defer wg.Done()
			_, _ = rec.ExchangeReserved(holdCtx, holdQ)
		}()
		// Keep them consecutive: wait until the server got it.
		for unanswered() != i+1 {
			time.Sleep(time.Microsecond * 50)
		}
	}

	// Ordinary traffic, one query at a time, all answered at once.
	ctx, cancel := context.WithTimeout(context.Background(), time.Second*25)
	defer cancel()
	exchangeOne := func() error {
		rec, closed := dc.ReserveNewQuery()
		if closed {
			return errors.New("connection closed")
		}
		if rec == nil {
			return errors.New("reservation refused")
		}
		r, err := rec.ExchangeReserved(ctx, okQ)
		if err != nil {
			return err
		}
		if binary.BigEndian.Uint16(*r) != binary.BigEndian.Uint16(okQ) {
			return errors.New("wrong id")
		}
		pool.ReleaseBuf(r)
		return nil
	}
	for i := 0; i < 65536-heldN; i++ {
		if err := exchangeOne(); err != nil {
			t.Fatalf("ordinary query %d failed: %v", i, err)
		}
	}

	// The connection is alive and holds 100 (+0) of 4096 queries.
	if dc.IsClosed() {
		t.Fatal("connection closed")
	}
	dc.queueMu.RLock()
	reserved, queued := dc.reservedQuery, len(dc.queue)
	dc.queueMu.RUnlock()
	t.Logf("reserved=%d queued=%d limit=%d", reserved, queued, limit)
	if reserved != heldN || queued != heldN {
		t.Fatalf("unexpected accounting: reserved=%d queued=%d", reserved, queued)
	}

	// It must admit one more query.
	if err := exchangeOne(); err != nil {
		t.Fatalf("live connection with %d of %d queries refused a new query: %v", reserved, limit, err)
	}
}
