package cache

// Audit C19, finding 2: one cached response that miekg/dns can unpack but not
// pack again makes writeDump fail, so the dump file (already truncated by
// os.Create) holds none or a few of the live entries and a restart serves a
// different cache.

import (
	"bytes"
	"context"
	"encoding/binary"
	"fmt"
	"net/http"
	"net/http/httptest"
	"path/filepath"
	"testing"

	"github.com/IrineSistiana/mosdns/v5/pkg/query_context"
	"github.com/IrineSistiana/mosdns/v5/plugin/executable/sequence"
	"github.com/miekg/dns"
)

type audit2Upstream struct{ wire []byte }

// Exec plays the role of the forward plugin: it unpacks what the upstream
// server sent and sets it as the response.
func (u audit2Upstream) Exec(_ context.Context, qCtx *query_context.Context) error {
	if qCtx.R() != nil {
		return nil
	}
	r := new(dns.Msg)
	if err := r.Unpack(u.wire); err != nil {
		return err
	}
	r.Id = qCtx.Q().Id
	qCtx.SetResponse(r)
	return nil
}

func audit2Query(t *testing.T, c *Cache, q *dns.Msg, upstreamWire []byte) *dns.Msg {
	t.Helper()
	qCtx := query_context.NewContext(q.Copy())
	var chain []*sequence.ChainNode
	if upstreamWire != nil {
		chain = []*sequence.ChainNode{{E: audit2Upstream{upstreamWire}}}
	}
	if err := c.Exec(context.Background(), qCtx, sequence.NewChainWalker(chain, nil)); err != nil {
		t.Fatal(err)
	}
	return qCtx.R()
}

// httpsWireWithEmptyAlpn is a well-formed DNS response with one HTTPS record
// whose alpn parameter contains a zero-length alpn-id. dns.Msg.Unpack accepts
// it; dns.Msg.Pack refuses it ("svcbalpn: empty alpn-id").
func httpsWireWithEmptyAlpn() (q *dns.Msg, wire []byte) {
	q = new(dns.Msg)
	q.SetQuestion("svc.example.", dns.TypeHTTPS)
	buf := make([]byte, 12)
	binary.BigEndian.PutUint16(buf[2:], 0x8180)
	binary.BigEndian.PutUint16(buf[4:], 1)
	binary.BigEndian.PutUint16(buf[6:], 1)
	buf = append(buf, 3, 's', 'v', 'c', 7, 'e', 'x', 'a', 'm', 'p', 'l', 'e', 0, 0, 65, 0, 1)
	rd := []byte{0, 1, 0, // priority 1, target "."
		0, 1, 0, 4, // key alpn, length 4
		2, 'h', '2', // "h2"
		0} // empty alpn-id
	buf = append(buf, 0xC0, 12, 0, 65, 0, 1, 0, 0, 0x0e, 0x10, 0, byte(len(rd)))
	buf = append(buf, rd...)
	return q, buf
}

func TestAudit2UnpackableEntryKillsDump(t *testing.T) {
	dumpFile := filepath.Join(t.TempDir(), "cache.dump")
	c := NewCache(&Args{Size: 4096, DumpFile: dumpFile, DumpInterval: 3600}, Opts{})

	// 300 ordinary entries.
	var qs []*dns.Msg
	for i := 0; i < 300; i++ {
		q := new(dns.Msg)
		q.SetQuestion(fmt.Sprintf("n%d.example.", i), dns.TypeA)
		r := new(dns.Msg)
		r.SetReply(q)
		rr, _ := dns.NewRR(fmt.Sprintf("n%d.example. 3600 IN A 192.0.2.%d", i, i%250))
		r.Answer = append(r.Answer, rr)
		w, err := r.Pack()
		if err != nil {
			t.Fatal(err)
		}
		audit2Query(t, c, q, w)
		qs = append(qs, q)
	}
	// a good dump exists on disk
	if err := c.dumpCache(); err != nil {
		t.Fatal(err)
	}

	// One response from upstream that unpacks fine.
	bq, bw := httpsWireWithEmptyAlpn()
	if r := audit2Query(t, c, bq, bw); r == nil || len(r.Answer) != 1 {
		t.Fatalf("upstream response was not accepted: %v", r)
	}

	for _, q := range qs {
		if r := audit2Query(t, c, q, nil); r == nil {
			t.Fatal("entry not served by the first cache")
		}
	}

	// plugin API: GET /dump
	rec := httptest.NewRecorder()
	c.Api().ServeHTTP(rec, httptest.NewRequest(http.MethodGet, "/dump", nil))
	apiDump := append([]byte(nil), rec.Body.Bytes()...)
	t.Logf("GET /dump: status %d, %d bytes", rec.Code, len(apiDump))

	// shutdown: Close dumps the cache to DumpFile.
	c.Close()

	// restart
	c2 := NewCache(&Args{Size: 4096, DumpFile: dumpFile, DumpInterval: 3600}, Opts{})
	defer c2.Close()
	miss := 0
	for _, q := range qs {
		if r := audit2Query(t, c2, q, nil); r == nil {
			miss++
		}
	}
	if miss > 0 {
		t.Errorf("after restart %d of %d ordinary entries that were live at shutdown are not served (cache has %d entries)", miss, len(qs), c2.backend.Len())
	}

	// the same through the API
	c3 := NewCache(&Args{Size: 4096}, Opts{})
	defer c3.Close()
	rec = httptest.NewRecorder()
	c3.Api().ServeHTTP(rec, httptest.NewRequest(http.MethodPost, "/load_dump", bytes.NewReader(apiDump)))
	miss = 0
	for _, q := range qs {
		if r := audit2Query(t, c3, q, nil); r == nil {
			miss++
		}
	}
	if miss > 0 {
		t.Errorf("GET /dump -> POST /load_dump (status %d): %d of %d ordinary entries are not served by the second cache", rec.Code, miss, len(qs))
	}
}
