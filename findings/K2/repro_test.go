package server

import (
	"context"
	"encoding/binary"
	"io"
	"net"
	"testing"
	"time"

	"github.com/miekg/dns"
)

// auditSlowHandler answers every query correctly, after a delay that stands for
// a slow upstream (well below the 5s query timeout of the entry handler).
type auditSlowHandler struct {
	delay time.Duration
}

func (h auditSlowHandler) Handle(ctx context.Context, q *dns.Msg, _ QueryMeta, pack func(m *dns.Msg) (*[]byte, error)) *[]byte {
	if q.Response || len(q.Question) != 1 {
		return nil // like EntryHandler: malformed, no reply
	}
	select {
	case <-time.After(h.delay):
	case <-ctx.Done():
	}
	r := new(dns.Msg)
	r.SetReply(q)
	r.RecursionAvailable = true
	if ctx.Err() != nil {
		r.Rcode = dns.RcodeServerFailure // what EntryHandler does when the plugins return ctx's error
	}
	b, err := pack(r)
	if err != nil {
		return nil
	}
	return b
}

func auditWriteQuery(t *testing.T, c net.Conn, m *dns.Msg) {
	t.Helper()
	b, err := m.Pack()
	if err != nil {
		t.Fatal(err)
	}
	buf := make([]byte, 2+len(b))
	binary.BigEndian.PutUint16(buf, uint16(len(b)))
	copy(buf[2:], b)
	if _, err := c.Write(buf); err != nil {
		t.Fatal(err)
	}
}

func auditReadReply(c net.Conn) (*dns.Msg, error) {
	h := make([]byte, 2)
	if _, err := io.ReadFull(c, h); err != nil {
		return nil, err
	}
	b := make([]byte, binary.BigEndian.Uint16(h))
	if _, err := io.ReadFull(c, b); err != nil {
		return nil, err
	}
	r := new(dns.Msg)
	return r, r.Unpack(b)
}

func auditStartTCP(t *testing.T, h Handler, opts TCPServerOpts) net.Conn {
	t.Helper()
	l, err := net.Listen("tcp", "127.0.0.1:0")
	if err != nil {
		t.Fatal(err)
	}
	t.Cleanup(func() { l.Close() })
	go ServeTCP(l, h, opts)
	c, err := net.Dial("tcp", l.Addr().String())
	if err != nil {
		t.Fatal(err)
	}
	t.Cleanup(func() { c.Close() })
	c.SetDeadline(time.Now().Add(5 * time.Second))
	return c
}

// tcp_server "idle_timeout: 1" (1s; scaled to 300ms here), upstream needs a bit
// longer than that to answer. The idle timer keeps running while the query is
// being processed; when it fires the connection is closed and the query's
// context is cancelled, so the client never gets a reply.
func TestAuditTCPIdleTimeoutKillsQueryInFlight(t *testing.T) {
	c := auditStartTCP(t, auditSlowHandler{delay: 800 * time.Millisecond}, TCPServerOpts{IdleTimeout: 300 * time.Millisecond})
	q := new(dns.Msg)
	q.SetQuestion("example.com.", dns.TypeA)
	start := time.Now()
	auditWriteQuery(t, c, q)
	r, err := auditReadReply(c)
	if err != nil {
		t.Fatalf("valid query got no reply, connection ended after %v: %v", time.Since(start).Round(10*time.Millisecond), err)
	}
	if r.Id != q.Id || r.Question[0] != q.Question[0] || r.Rcode != dns.RcodeSuccess {
		t.Fatalf("unexpected reply %v", r)
	}
}

// The client sends its query and half-closes the connection (shutdown(SHUT_WR)),
// then waits for the reply. The server's read loop sees EOF, closes the
// connection and cancels the query that is still being processed.
func TestAuditTCPHalfCloseKillsQueryInFlight(t *testing.T) {
	c := auditStartTCP(t, auditSlowHandler{delay: 200 * time.Millisecond}, TCPServerOpts{})
	q := new(dns.Msg)
	q.SetQuestion("example.com.", dns.TypeA)
	auditWriteQuery(t, c, q)
	if err := c.(*net.TCPConn).CloseWrite(); err != nil {
		t.Fatal(err)
	}
	r, err := auditReadReply(c)
	if err != nil {
		t.Fatalf("valid query got no reply: %v", err)
	}
	if r.Id != q.Id || r.Question[0] != q.Question[0] || r.Rcode != dns.RcodeSuccess {
		t.Fatalf("unexpected reply %v", r)
	}
}

// Two pipelined messages on one connection: a valid query that takes 200ms to
// answer, then a malformed message (QR=1). The malformed one must get no
// reply - but the server aborts the whole connection, so the valid query
// gets no reply either.
func TestAuditTCPMalformedMessageKillsOtherQuery(t *testing.T) {
	c := auditStartTCP(t, auditSlowHandler{delay: 200 * time.Millisecond}, TCPServerOpts{})
	q := new(dns.Msg)
	q.SetQuestion("example.com.", dns.TypeA)
	auditWriteQuery(t, c, q)
	bad := new(dns.Msg)
	bad.SetQuestion("example.com.", dns.TypeA)
	bad.Response = true
	auditWriteQuery(t, c, bad)
	r, err := auditReadReply(c)
	if err != nil {
		t.Fatalf("valid query got no reply: %v", err)
	}
	if r.Id != q.Id || r.Question[0] != q.Question[0] || r.Rcode != dns.RcodeSuccess {
		t.Fatalf("unexpected reply %v", r)
	}
}
