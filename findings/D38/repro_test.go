package transport

// Audit C02, finding 1.
//
// A reply that is taken by the reader before exchange() reaches its
// waitingResp.CompareAndSwap(false, true) leaves the flag set (stale) with an empty
// queue. The next query then cannot arm the waiting-reply read deadline (its CAS
// fails), so the read deadline that was armed for the FIRST (long answered) query
// is still in force. It fires while the second query is waiting and kills the
// healthy connection: the second query fails with "read err, i/o timeout" a few
// hundred ms after it was sent, although its reply arrives well within its deadline.

import (
	"context"
	"encoding/binary"
	"net"
	"sync/atomic"
	"testing"
	"time"

	"github.com/IrineSistiana/mosdns/v5/pkg/dnsutils"
	"github.com/IrineSistiana/mosdns/v5/pkg/pool"
	"github.com/miekg/dns"
)

// auditSyncConn is the client side of a net.Pipe. In "sync" mode its Write returns
// only after the server's reply has been consumed by the connection reader (plus a
// small pause, modelling a caller that is descheduled right after the send: the
// reply arrives "before the send call returns").
type auditSyncConn struct {
	net.Conn
	syncMode   atomic.Bool
	replied    chan struct{}
	replyDelay atomic.Int64 // ns, used when syncMode is false
}

func (c *auditSyncConn) Write(p []byte) (int, error) {
	n, err := c.Conn.Write(p)
	if err != nil {
		return n, err
	}
	if c.syncMode.Load() {
		<-c.replied                       // reply was read by the connection reader
		time.Sleep(time.Millisecond * 30) // caller is slow to come back from the send
	}
	return n, err
}

// newAuditSyncConn returns the client conn. A server goroutine echoes every
// (length prefixed) query.
func newAuditSyncConn() *auditSyncConn {
	c1, c2 := net.Pipe()
	ac := &auditSyncConn{Conn: c1, replied: make(chan struct{}, 16)}
	go func() {
		defer c2.Close()
		for {
			m, err := dnsutils.ReadRawMsgFromTCP(c2)
			if err != nil {
				return
			}
			sync := ac.syncMode.Load()
			d := time.Duration(ac.replyDelay.Load())
			go func() {
				defer pool.ReleaseBuf(m)
				if !sync {
					time.Sleep(d)
				}
				(*m)[2] |= 0x80 // QR
				// net.Pipe: Write returns when the peer has read all of it.
				_, _ = dnsutils.WriteRawMsgToTCP(c2, *m)
				if sync {
					ac.replied <- struct{}{}
				}
			}()
		}
	}()
	return ac
}

func auditQuery(t *testing.T, id uint16) []byte {
	q := new(dns.Msg)
	q.SetQuestion("audit.test.", dns.TypeA)
	q.Id = id
	b, err := q.Pack()
	if err != nil {
		t.Fatal(err)
	}
	return b
}

func auditExchange(t *testing.T, dc *TraditionalDnsConn, id uint16, timeout time.Duration) (time.Duration, error) {
	t.Helper()
	rec, closed := dc.ReserveNewQuery()
	if rec == nil {
		t.Fatalf("cannot reserve query, closed=%v", closed)
	}
	ctx, cancel := context.WithTimeout(context.Background(), timeout)
	defer cancel()
	start := time.Now()
	r, err := rec.ExchangeReserved(ctx, auditQuery(t, id))
	el := time.Since(start)
	if err != nil {
		return el, err
	}
	if got := binary.BigEndian.Uint16(*r); got != id {
		t.Fatalf("reply has id %d, want %d", got, id)
	}
	return el, nil
}

func runAuditStaleFlag(t *testing.T, firstReplyDuringSend bool) {
	conn := newAuditSyncConn()
	// Same shape as the plain udp / tcp+pipeline upstream: idle timeout (5 min) is
	// longer than waitingReplyTimeout (10s).
	dc := NewDnsConn(TraditionalDnsConnOpts{WithLengthHeader: true, IdleTimeout: time.Minute * 5}, conn)
	defer dc.Close()

	// Query 1 is answered at once.
	if firstReplyDuringSend {
		conn.syncMode.Store(true) // reply is read before Write() returns
	} else {
		conn.replyDelay.Store(int64(time.Millisecond * 20)) // caller is parked first
	}
	t0 := time.Now()
	if _, err := auditExchange(t, dc, 1, time.Second*3); err != nil {
		t.Fatalf("query 1 failed: %v", err)
	}
	dc.queueMu.RLock()
	ql := len(dc.queue)
	dc.queueMu.RUnlock()
	t.Logf("after query 1: unanswered queries=%d, waitingResp=%v", ql, dc.waitingResp.Load())

	// The connection is healthy and idle. Query 2 is sent 9.6s later. The server
	// needs 900ms for it (an ordinary recursive lookup). Query 2 has 5s.
	conn.syncMode.Store(false)
	conn.replyDelay.Store(int64(time.Millisecond * 900))
	time.Sleep(time.Until(t0.Add(waitingReplyTimeout - time.Millisecond*400)))

	el, err := auditExchange(t, dc, 2, time.Second*5)
	if err != nil {
		t.Fatalf("query 2 failed after %v although its reply arrives 900ms after the send, long before its 5s deadline: %v (connection closed=%v)", el.Round(time.Millisecond), err, dc.IsClosed())
	}
	t.Logf("query 2 answered in %v", el.Round(time.Millisecond))
}

// Fails on the clean tree.
func TestAuditC02_1_StaleWaitingFlagKillsHealthyConn(t *testing.T) {
	t.Parallel()
	runAuditStaleFlag(t, true)
}

// Control: the same history, but the first reply arrives when the caller is already
// waiting. Passes on the clean tree.
func TestAuditC02_1_Control(t *testing.T) {
	t.Parallel()
	runAuditStaleFlag(t, false)
}
