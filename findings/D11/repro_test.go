package transport

import (
	"context"
	"encoding/binary"
	"net"
	"sync"
	"testing"
	"time"

	"github.com/miekg/dns"
)

// D11: two queries are outstanding on one connection; the server answers the first and never the
// second. The reply to the first clears the "waiting for a reply" flag, the reader re-arms only the
// idle deadline, and the second query (unbounded context) hangs for the whole idle timeout
// (5 minutes for UDP upstreams) instead of the ~10 s waiting-reply timeout.
type ddlConn struct {
	net.Conn
	mu   sync.Mutex
	last time.Time
}

func (c *ddlConn) SetReadDeadline(t time.Time) error {
	c.mu.Lock()
	c.last = t
	c.mu.Unlock()
	return c.Conn.SetReadDeadline(t)
}

func testD11(t *testing.T, lengthHeader bool) {
	c1, c2 := net.Pipe()
	defer c1.Close()
	defer c2.Close()
	go func() { // answer "first" once "second" has arrived too; never answer "second"
		b := make([]byte, 4096)
		var firstQ *dns.Msg
		answered := false
		for {
			n, err := c2.Read(b)
			if err != nil {
				return
			}
			m := b[:n]
			if lengthHeader {
				if n <= 2 {
					continue
				}
				m = m[2:]
			}
			q := new(dns.Msg)
			if q.Unpack(m) != nil || len(q.Question) != 1 {
				continue
			}
			if q.Question[0].Name == "first.test." && firstQ == nil {
				firstQ = q
				continue
			}
			if q.Question[0].Name == "second.test." && firstQ != nil && !answered {
				answered = true
				firstQ.Response = true
				out, _ := firstQ.Pack()
				if lengthHeader {
					out = append([]byte{0, 0}, out...)
					binary.BigEndian.PutUint16(out, uint16(len(out)-2))
				}
				time.Sleep(300 * time.Millisecond) // both queries are outstanding (and past their deadline arming) when the reply comes
				c2.Write(out)
			}
		}
	}()
	sc := &ddlConn{Conn: c1}
	dc := NewDnsConn(TraditionalDnsConnOpts{WithLengthHeader: lengthHeader, IdleTimeout: 5 * time.Minute}, sc)
	defer dc.Close()

	mk := func(name string) []byte {
		q := new(dns.Msg)
		q.SetQuestion(name, dns.TypeA)
		p, _ := q.Pack()
		return p
	}
	first := make(chan error, 1)
	go func() { _, err := dc.exchange(context.Background(), mk("first.test.")); first <- err }()
	time.Sleep(100 * time.Millisecond)
	second := make(chan error, 1)
	// the second query is written before the reply to the first is read? No: the first reply is already in.
	// Make both outstanding: send the second one first on a fresh connection state is not needed: the flag was
	// cleared by the first reply, the second exchange arms it again. So hold the first reply back instead.
	go func() { _, err := dc.exchange(context.Background(), mk("second.test.")); second <- err }()
	select {
	case err := <-first:
		if err != nil {
			t.Fatalf("first: %v", err)
		}
	case <-time.After(3 * time.Second):
		t.Fatal("first query not answered")
	}
	time.Sleep(2500 * time.Millisecond) // the reader has re-armed its deadline after the reply; udp has re-sent twice
	sc.mu.Lock()
	left := time.Until(sc.last)
	sc.mu.Unlock()
	t.Logf("armed deadline is %v away", left)
	if left > 15*time.Second {
		t.Fatalf("second query unanswered, unbounded context: the armed read deadline is %v away; the exchange will hang that long instead of ~10s", left.Round(time.Second))
	}
}

func Test_D11_UDP(t *testing.T) { testD11(t, false) }
func Test_D11_TCP(t *testing.T) { testD11(t, true) }
