package server_handler

// Audit C03, finding 2: over udp the answer is truncated to the size the
// client advertised, up to 65535 bytes. A udp datagram cannot carry more than
// 65507 (ipv4) / 65527 (ipv6) bytes of payload: a reply between that and the
// advertised size is handed to sendmsg, which fails with EMSGSIZE
// ("message too long"), and the client gets no reply at all instead of a
// truncated (TC) one.

import (
	"context"
	"net"
	"strings"
	"testing"
	"time"

	"github.com/IrineSistiana/mosdns/v5/pkg/query_context"
	"github.com/IrineSistiana/mosdns/v5/pkg/server"
	"github.com/IrineSistiana/mosdns/v5/plugin/executable/sequence"
	"github.com/miekg/dns"
)

// auditSizedAnswer answers with TXT records so that the packed reply
// (including the 11 bytes OPT that the handler adds) is exactly total bytes.
func auditSizedAnswer(total int) sequence.Executable {
	return sequence.ExecutableFunc(func(ctx context.Context, qCtx *query_context.Context) error {
		r := new(dns.Msg)
		r.SetReply(qCtx.Q())
		l := r.Len() + 11
		for l < total {
			n := 255
			if rem := total - l; rem < 12+255+12 { // the last one or two make it fit exactly
				n = rem - 12
				if n > 255 {
					n = 200
				}
			}
			r.Answer = append(r.Answer, &dns.TXT{
				Hdr: dns.RR_Header{Name: ".", Rrtype: dns.TypeTXT, Class: dns.ClassINET, Ttl: 5},
				Txt: []string{strings.Repeat("x", n)},
			})
			l += 12 + n // 1 (root) + 10 (rr header) + 1 (txt length) + n
		}
		qCtx.SetResponse(r)
		return nil
	})
}

func TestAuditC03_2_UDPReplyLargerThanADatagram(t *testing.T) {
	// 65000 is a control: it works. The others fit the advertised 65535 bytes.
	for _, total := range []int{65000, 65508, 65535} {
		pc, err := net.ListenPacket("udp", "127.0.0.1:0")
		if err != nil {
			t.Fatal(err)
		}
		h := NewEntryHandler(EntryHandlerOpts{Entry: auditSizedAnswer(total)})
		go server.ServeUDP(pc.(*net.UDPConn), h, server.UDPServerOpts{})

		c, err := net.Dial("udp", pc.LocalAddr().String())
		if err != nil {
			t.Fatal(err)
		}
		q := new(dns.Msg)
		q.SetQuestion("big.example.", dns.TypeTXT)
		q.SetEdns0(65535, false)
		b, _ := q.Pack()
		c.Write(b)
		c.SetReadDeadline(time.Now().Add(time.Second))
		buf := make([]byte, 70000)
		n, err := c.Read(buf)
		if err != nil {
			t.Errorf("answer of %d bytes, client advertised 65535: no reply: %v", total, err)
		} else {
			r := new(dns.Msg)
			if err := r.Unpack(buf[:n]); err != nil {
				t.Errorf("answer of %d bytes: reply does not unpack: %v", total, err)
			} else if r.Id != q.Id || r.Question[0] != q.Question[0] || !r.Response {
				t.Errorf("answer of %d bytes: bad reply", total)
			} else {
				t.Logf("answer of %d bytes: reply has %d bytes, tc=%v", total, n, r.Truncated)
			}
		}
		c.Close()
		pc.Close()
	}
}
