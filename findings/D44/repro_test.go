package upstream

// Audit C18, finding 1.
//
// A bare (unbracketed) ipv6 literal that is followed by a port, and that is not
// by accident another valid ipv6 literal (full form + port, or a port with five
// digits), is accepted by NewUpstream. The whole string (port included) becomes
// the "host name", the port the user wrote is replaced by the scheme default,
// and the string is sent as TLS server name.
//
// Every sub test accepts both correct outcomes: NewUpstream rejects the address,
// or the connection goes to the host and port that were written.

import (
	"context"
	"crypto/tls"
	"encoding/binary"
	"fmt"
	"io"
	"net"
	"net/netip"
	"strconv"
	"strings"
	"testing"
	"time"

	"github.com/IrineSistiana/mosdns/v5/pkg/utils"
	"github.com/miekg/dns"
)

type zzS5Obs struct {
	atyp byte // 1: ipv4, 3: domain name, 4: ipv6
	host string
	port uint16
	sni  string
}

func (o zzS5Obs) String() string {
	return fmt.Sprintf("CONNECT atyp=%d host=%q port=%d, tls server name %q", o.atyp, o.host, o.port, o.sni)
}

// zzNewS5 starts a socks5 proxy that records the destination of every
// CONNECT request, answers "succeeded" and then (if doTLS) plays a TLS server
// to record the server name.
func zzNewS5(t testing.TB, doTLS bool) (addr string, obs <-chan zzS5Obs) {
	l, err := net.Listen("tcp", "127.0.0.1:0")
	if err != nil {
		t.Fatal(err)
	}
	t.Cleanup(func() { l.Close() })
	crt, err := utils.GenerateCertificate("test")
	if err != nil {
		t.Fatal(err)
	}
	ch := make(chan zzS5Obs, 16)
	serve := func(c net.Conn) {
		defer c.Close()
		c.SetDeadline(time.Now().Add(3 * time.Second))
		var o zzS5Obs
		b := make([]byte, 300)
		if _, err := io.ReadFull(c, b[:2]); err != nil {
			return
		}
		if _, err := io.ReadFull(c, b[:int(b[1])]); err != nil {
			return
		}
		c.Write([]byte{5, 0})
		if _, err := io.ReadFull(c, b[:4]); err != nil {
			return
		}
		o.atyp = b[3]
		switch o.atyp {
		case 1:
			io.ReadFull(c, b[:4])
			o.host = net.IP(b[:4]).String()
		case 4:
			io.ReadFull(c, b[:16])
			o.host = net.IP(b[:16]).String()
		case 3:
			io.ReadFull(c, b[:1])
			n := int(b[0])
			io.ReadFull(c, b[:n])
			o.host = string(b[:n])
		}
		if _, err := io.ReadFull(c, b[:2]); err != nil {
			return
		}
		o.port = binary.BigEndian.Uint16(b[:2])
		c.Write([]byte{5, 0, 0, 1, 0, 0, 0, 0, 0, 0})
		if doTLS {
			tc := tls.Server(c, &tls.Config{
				GetConfigForClient: func(chi *tls.ClientHelloInfo) (*tls.Config, error) {
					o.sni = chi.ServerName
					return &tls.Config{Certificates: []tls.Certificate{crt}, NextProtos: []string{"h2", "http/1.1"}}, nil
				},
			})
			tc.Handshake()
		}
		ch <- o
	}
	go func() {
		for {
			c, err := l.Accept()
			if err != nil {
				return
			}
			go serve(c)
		}
	}()
	return l.Addr().String(), ch
}

func zzQuery() []byte {
	m := new(dns.Msg)
	m.SetQuestion("example.com.", dns.TypeA)
	b, _ := m.Pack()
	return b
}

func zzSameHost(a, b string) bool {
	ia, errA := netip.ParseAddr(a)
	ib, errB := netip.ParseAddr(b)
	if errA == nil && errB == nil {
		return ia == ib
	}
	return a == b
}

// Observed at the CONNECT request that a harness socks5 proxy receives.
func Test_ZZ_C18_F1_BareIPv6WithPort_Socks5(t *testing.T) {
	cases := []struct {
		addr, dialAddr string
		wantHost       string // what the user wrote
		wantPort       uint16
	}{
		// full form, 8 groups + port: not ambiguous at all.
		{"tls://2001:db8:0:0:0:0:0:1:5353", "", "2001:db8::1", 5353},
		{"tls+pipeline://2001:db8:0:0:0:0:0:1:5353", "", "2001:db8::1", 5353},
		{"tcp://2001:db8:0:0:0:0:0:1:5353", "", "2001:db8::1", 5353},
		{"https://2001:db8:0:0:0:0:0:1:8443/dns-query", "", "2001:db8::1", 8443},
		{"tls://2001:0db8:0000:0000:0000:0000:0000:0001:853", "", "2001:db8::1", 853},
		// dial_addr without a port "keeps the port of the url" (d421ac1).
		{"tls://2001:db8:0:0:0:0:0:1:5353", "198.51.100.7", "198.51.100.7", 5353},
		{"https://2001:db8:0:0:0:0:0:1:8443/dns-query", "198.51.100.7", "198.51.100.7", 8443},
		// compressed form + a port that cannot be an ipv6 group.
		{"tls://fd00::1:10853", "", "fd00::1", 10853},
		{"tls://fd00::1:10853", "fd00::1", "fd00::1", 10853},
		{"https://fd00::1:10443/dns-query", "fd00::1", "fd00::1", 10443},
	}
	for _, c := range cases {
		t.Run(c.addr+"_dial_"+c.dialAddr, func(t *testing.T) {
			doTLS := !strings.HasPrefix(c.addr, "tcp")
			s5Addr, obs := zzNewS5(t, doTLS)
			u, err := NewUpstream(c.addr, Opt{
				DialAddr:  c.dialAddr,
				Socks5:    s5Addr,
				TLSConfig: &tls.Config{InsecureSkipVerify: true},
			})
			if err != nil {
				t.Logf("rejected (fine): %v", err)
				return
			}
			defer u.Close()
			ctx, cancel := context.WithTimeout(context.Background(), time.Millisecond*500)
			defer cancel()
			go u.ExchangeContext(ctx, zzQuery())
			select {
			case o := <-obs:
				if !zzSameHost(o.host, c.wantHost) || o.port != c.wantPort {
					t.Errorf("addr %q dial_addr %q was accepted, the user wrote host %s port %d, but the proxy saw: %v",
						c.addr, c.dialAddr, c.wantHost, c.wantPort, o)
				}
				if strings.Contains(o.sni, ":") {
					t.Errorf("addr %q: tls server name %q is not a host name", c.addr, o.sni)
				}
			case <-time.After(time.Second):
				t.Errorf("addr %q dial_addr %q was accepted but no connection was opened", c.addr, c.dialAddr)
			}
		})
	}
}

// Observed on loopback listeners, without a proxy: the url says port P, dial_addr
// (an IP without port) must keep it; the connection goes to the default port 853.
func Test_ZZ_C18_F1_BareIPv6WithPort_Direct(t *testing.T) {
	type hit struct{ network, laddr string }
	hits := make(chan hit, 16)

	listenTCP := func(la string) int {
		l, err := net.Listen("tcp", la)
		if err != nil {
			t.Skipf("cannot listen on %s: %v", la, err)
		}
		t.Cleanup(func() { l.Close() })
		go func() {
			for {
				c, err := l.Accept()
				if err != nil {
					return
				}
				hits <- hit{"tcp", l.Addr().String()}
				c.Close()
			}
		}()
		return l.Addr().(*net.TCPAddr).Port
	}
	listenUDP := func(la string) int {
		pc, err := net.ListenPacket("udp", la)
		if err != nil {
			t.Skipf("cannot listen on %s: %v", la, err)
		}
		t.Cleanup(func() { pc.Close() })
		go func() {
			b := make([]byte, 2048)
			for {
				if _, _, err := pc.ReadFrom(b); err != nil {
					return
				}
				select {
				case hits <- hit{"udp", pc.LocalAddr().String()}:
				default:
				}
			}
		}()
		return pc.LocalAddr().(*net.UDPAddr).Port
	}

	// The ports the user wrote.
	pTCP := listenTCP("[::1]:0")
	pUDP := listenUDP("[::1]:0")
	// The scheme default, where the connections must NOT go.
	listenTCP("[::1]:853")
	listenUDP("[::1]:853")

	cases := []struct {
		addr, dialAddr, wantNet string
		wantPort               int
	}{
		{"tls://0:0:0:0:0:0:0:1:" + strconv.Itoa(pTCP), "::1", "tcp", pTCP},
		{"quic://0:0:0:0:0:0:0:1:" + strconv.Itoa(pUDP), "::1", "udp", pUDP},
	}
	for _, c := range cases {
		t.Run(c.addr, func(t *testing.T) {
			u, err := NewUpstream(c.addr, Opt{DialAddr: c.dialAddr, TLSConfig: &tls.Config{InsecureSkipVerify: true}})
			if err != nil {
				t.Logf("rejected (fine): %v", err)
				return
			}
			defer u.Close()
			ctx, cancel := context.WithTimeout(context.Background(), time.Millisecond*500)
			defer cancel()
			go u.ExchangeContext(ctx, zzQuery())
			want := net.JoinHostPort("::1", strconv.Itoa(c.wantPort))
			select {
			case h := <-hits:
				if h.network != c.wantNet || h.laddr != want {
					t.Errorf("addr %q dial_addr %q was accepted, the user wrote port %d, but the connection went to %s %s",
						c.addr, c.dialAddr, c.wantPort, h.network, h.laddr)
				}
			case <-time.After(time.Second):
				t.Errorf("addr %q was accepted but no connection was opened", c.addr)
			}
		})
	}
}

// The same class in dial_addr: accepted at creation, can never be dialed.
func Test_ZZ_C18_F1_DialAddrBareIPv6WithPort(t *testing.T) {
	for _, dialAddr := range []string{"2001:db8:0:0:0:0:0:2:853", "fd00::2:10853"} {
		t.Run(dialAddr, func(t *testing.T) {
			s5Addr, obs := zzNewS5(t, true)
			u, err := NewUpstream("tls://dns.example", Opt{DialAddr: dialAddr, Socks5: s5Addr, TLSConfig: &tls.Config{InsecureSkipVerify: true}})
			if err != nil {
				t.Logf("rejected (fine): %v", err)
				return
			}
			defer u.Close()
			ctx, cancel := context.WithTimeout(context.Background(), time.Millisecond*500)
			defer cancel()
			go u.ExchangeContext(ctx, zzQuery())
			select {
			case o := <-obs:
				if o.atyp == 3 {
					t.Errorf("dial_addr %q was accepted and is dialed as a domain name: %v", dialAddr, o)
				}
			case <-time.After(time.Second):
				t.Errorf("dial_addr %q was accepted but no connection was opened", dialAddr)
			}
		})
	}
}
