package cache

import (
	"bytes"
	"encoding/binary"
	"io"
	"strconv"
	"sync"
	"testing"
	"time"

	"github.com/klauspost/compress/gzip"
	"github.com/miekg/dns"
	"google.golang.org/protobuf/proto"
)

func zzQuery(i int) *dns.Msg {
	q := new(dns.Msg)
	q.SetQuestion("n"+strconv.Itoa(i)+".test.", dns.TypeA)
	return q
}

// zzDumpWithOpt builds a well-formed "mosdns_cache_v2" dump (the input of
// dump_file at start-up and of POST /load_dump) whose cached responses carry
// an EDNS0 OPT record in the additional section.
func zzDumpWithOpt(t *testing.T, n int) []byte {
	t.Helper()
	now := time.Now()
	block := new(CacheDumpBlock)
	for i := 0; i < n; i++ {
		q := zzQuery(i)
		r := new(dns.Msg)
		r.SetReply(q)
		rr, err := dns.NewRR(q.Question[0].Name + " 300 IN A 192.0.2.1")
		if err != nil {
			t.Fatal(err)
		}
		r.Answer = append(r.Answer, rr)
		r.SetEdns0(1232, false) // the only unusual thing in this dump
		wire, err := r.Pack()
		if err != nil {
			t.Fatal(err)
		}
		block.Entries = append(block.Entries, &CachedEntry{
			Key:                 []byte(getMsgKey(q)),
			CacheExpirationTime: now.Add(time.Hour).Unix(),
			MsgExpirationTime:   now.Add(time.Hour).Unix(),
			MsgStoredTime:       now.Unix(),
			Msg:                 wire,
		})
	}
	b, err := proto.Marshal(block)
	if err != nil {
		t.Fatal(err)
	}
	buf := new(bytes.Buffer)
	gw, _ := gzip.NewWriterLevel(buf, gzip.BestSpeed)
	gw.Name = dumpHeader
	l := make([]byte, 8)
	binary.BigEndian.PutUint64(l, uint64(len(b)))
	gw.Write(l)
	gw.Write(b)
	if err := gw.Close(); err != nil {
		t.Fatal(err)
	}
	return buf.Bytes()
}

// Lookups concurrent with dumps. Run with -race.
//
// readDump stores the unpacked message as it is. writeDump packs the stored
// message in place (under the shard lock); dns.Msg.Pack writes the header of
// the OPT record (OPT.SetExtendedRcode). A lookup copies the same stored message
// outside of any lock (getRespFromCache -> Msg.Copy). Unsynchronised write
// and read of the same memory.
func Test_zz_lookup_races_with_dump(t *testing.T) {
	const n = 64
	c := NewCache(&Args{Size: 1024}, Opts{})
	defer c.Close()
	en, err := c.readDump(bytes.NewReader(zzDumpWithOpt(t, n)))
	if err != nil || en != n {
		t.Fatalf("dump not accepted: %d, %v", en, err)
	}

	stop := make(chan struct{})
	wg := sync.WaitGroup{}
	wg.Add(2)
	go func() { // lookups
		defer wg.Done()
		for {
			select {
			case <-stop:
				return
			default:
			}
			for i := 0; i < n; i++ {
				q := zzQuery(i)
				r, _ := getRespFromCache(getMsgKey(q), c.backend, false, expiredMsgTtl)
				if r == nil || r.Question[0].Name != q.Question[0].Name {
					t.Error("lookup: miss or foreign response")
					return
				}
			}
		}
	}()
	go func() { // dumps (GET /dump, the dump loop, Close)
		defer wg.Done()
		for {
			select {
			case <-stop:
				return
			default:
			}
			if _, err := c.writeDump(io.Discard); err != nil {
				t.Error(err)
				return
			}
		}
	}()
	time.Sleep(300 * time.Millisecond)
	close(stop)
	wg.Wait()
}

// Control: the same mix on entries that were stored by the plugin itself
// (saveRespToCache strips OPT) is race free.
func Test_zz_lookup_and_dump_control(t *testing.T) {
	const n = 64
	c := NewCache(&Args{Size: 1024}, Opts{})
	defer c.Close()
	for i := 0; i < n; i++ {
		q := zzQuery(i)
		r := new(dns.Msg)
		r.SetReply(q)
		rr, _ := dns.NewRR(q.Question[0].Name + " 300 IN A 192.0.2.1")
		r.Answer = append(r.Answer, rr)
		r.SetEdns0(1232, false)
		if !saveRespToCache(getMsgKey(q), r, c.backend, 0) {
			t.Fatal("not stored")
		}
	}
	stop := make(chan struct{})
	wg := sync.WaitGroup{}
	wg.Add(2)
	go func() {
		defer wg.Done()
		for {
			select {
			case <-stop:
				return
			default:
			}
			for i := 0; i < n; i++ {
				getRespFromCache(getMsgKey(zzQuery(i)), c.backend, false, expiredMsgTtl)
			}
		}
	}()
	go func() {
		defer wg.Done()
		for {
			select {
			case <-stop:
				return
			default:
			}
			_, _ = c.writeDump(io.Discard)
		}
	}()
	time.Sleep(300 * time.Millisecond)
	close(stop)
	wg.Wait()
}
