package cache

import (
	"bytes"
	"context"
	"reflect"
	"sync"
	"testing"
	"time"

	"github.com/IrineSistiana/mosdns/v5/pkg/query_context"
	"github.com/IrineSistiana/mosdns/v5/plugin/executable/sequence"
	"github.com/miekg/dns"
)

// ---------------------------------------------------------------------------
// helpers
// ---------------------------------------------------------------------------

// auditScribble mutates, in place, everything that is reachable from v and that
// can be mutated without allocating: every element of every slice (bytes are
// flipped, integers incremented), every string and every integer field.
// It is what "arbitrary in-place mutation of every field" of a message that
// the caller owns looks like.
func auditScribble(v reflect.Value, depth int) {
	if depth > 32 {
		return
	}
	switch v.Kind() {
	case reflect.Ptr, reflect.Interface:
		if !v.IsNil() {
			auditScribble(v.Elem(), depth+1)
		}
	case reflect.Struct:
		for i := 0; i < v.NumField(); i++ {
			auditScribble(v.Field(i), depth+1)
		}
	case reflect.Slice:
		for i := 0; i < v.Len(); i++ {
			auditScribble(v.Index(i), depth+1)
		}
	case reflect.Uint8:
		if v.CanSet() {
			v.SetUint(uint64(^uint8(v.Uint())))
		}
	case reflect.Uint16, reflect.Uint32:
		// leave the integers alone: flipping rr types / option codes would
		// only make the *mutated* message unpackable, which is irrelevant.
	}
}

func auditMutateEverything(m *dns.Msg) {
	if m == nil {
		return
	}
	// record data, in place
	auditScribble(reflect.ValueOf(m), 0)
	// ttls and names, in place
	for _, sec := range [][]dns.RR{m.Answer, m.Ns, m.Extra} {
		for _, rr := range sec {
			rr.Header().Ttl = 7
			rr.Header().Name = "evil."
		}
	}
	// header
	m.Rcode = dns.RcodeRefused
	m.Truncated = true
	m.Id ^= 0xffff
	// sections: truncate + append an EDNS record
	if len(m.Answer) > 0 {
		m.Answer = m.Answer[:len(m.Answer)-1]
	}
	o := new(dns.OPT)
	o.Hdr.Name, o.Hdr.Rrtype = ".", dns.TypeOPT
	m.Extra = append(m.Extra, o)
}

func auditPack(t *testing.T, m *dns.Msg) []byte {
	t.Helper()
	b, err := m.Pack()
	if err != nil {
		t.Fatalf("pack: %v", err)
	}
	return b
}

func auditECS() *dns.EDNS0_SUBNET {
	return &dns.EDNS0_SUBNET{Code: dns.EDNS0SUBNET, Family: 1, SourceNetmask: 24, SourceScope: 24, Address: []byte{192, 0, 2, 0}}
}

// auditUpstreamWire is what the (faked) upstream puts on the wire: a normal
// answer for example.org. A, plus an OPT pseudo record that is NOT in the
// additional section but in the answer (or authority) section.
func auditUpstreamWire(t *testing.T, inAuthority bool) []byte {
	t.Helper()
	m := new(dns.Msg)
	m.SetQuestion("example.org.", dns.TypeA)
	m.Response = true
	m.RecursionAvailable = true
	a := &dns.A{Hdr: dns.RR_Header{Name: "example.org.", Rrtype: dns.TypeA, Class: dns.ClassINET, Ttl: 300}, A: []byte{192, 0, 2, 1}}
	opt := &dns.OPT{Hdr: dns.RR_Header{Name: ".", Rrtype: dns.TypeOPT}}
	opt.SetUDPSize(1232)
	opt.Option = []dns.EDNS0{
		auditECS(),
		&dns.EDNS0_DAU{Code: dns.EDNS0DAU, AlgCode: []byte{8, 13}},
	}
	if inAuthority {
		m.Answer = []dns.RR{a}
		m.Ns = []dns.RR{opt}
	} else {
		m.Answer = []dns.RR{opt, a}
	}
	return auditPack(t, m)
}

// auditQuery runs one client query (with the given id) through
//
//	cache -> upstream
//
// and returns the query context after the sequence has finished.
func auditQuery(t *testing.T, c *Cache, id uint16, upstream sequence.Executable) *query_context.Context {
	t.Helper()
	q := new(dns.Msg)
	q.SetQuestion("example.org.", dns.TypeA)
	q.Id = id
	qCtx := query_context.NewContext(q)
	w := sequence.NewChainWalker([]*sequence.ChainNode{{RE: c}, {E: upstream}}, nil)
	if err := w.ExecNext(context.Background(), qCtx); err != nil {
		t.Fatal(err)
	}
	return qCtx
}

// ---------------------------------------------------------------------------
// Finding 1: an OPT pseudo record outside the additional section is stored and
// handed out with a shallow copy of its options.
// ---------------------------------------------------------------------------

func auditOptOutsideAdditional(t *testing.T, inAuthority bool) {
	c := NewCache(&Args{Size: 1024}, Opts{})
	defer c.Close()

	wire := auditUpstreamWire(t, inAuthority)

	upstreamCalls := 0
	upstream := sequence.ExecutableFunc(func(_ context.Context, qCtx *query_context.Context) error {
		if qCtx.R() != nil {
			return nil // served from cache
		}
		upstreamCalls++
		r := new(dns.Msg)
		if err := r.Unpack(wire); err != nil { // a completely fresh message for every call
			return err
		}
		r.Id = qCtx.Q().Id
		qCtx.SetResponse(r)
		return nil
	})

	// What a hit must look like: whatever an identical, second cache that
	// nobody interferes with serves for the same history (so the test does not
	// care whether the cache keeps or drops the misplaced OPT record).
	want := func(id uint16) []byte {
		control := NewCache(&Args{Size: 1024}, Opts{})
		defer control.Close()
		n := upstreamCalls
		auditQuery(t, control, 1, upstream)         // miss, stored
		hit := auditQuery(t, control, id, upstream) // hit
		if upstreamCalls != n+1 {
			t.Fatalf("control: expected one miss and one hit")
		}
		upstreamCalls = n
		return auditPack(t, hit.R())
	}

	// query 1: miss, response is stored.
	ctx1 := auditQuery(t, c, 1, upstream)
	if upstreamCalls != 1 {
		t.Fatalf("query 1 should be a miss")
	}
	// ... and now a later plugin / the server does whatever it likes to the
	// response that was just stored.
	auditMutateEverything(ctx1.R())

	// query 2: hit.
	ctx2 := auditQuery(t, c, 2, upstream)
	if upstreamCalls != 1 {
		t.Fatalf("query 2 should be a hit")
	}
	if ctx2.R().Id != 2 {
		t.Fatalf("hit has id %d, want 2", ctx2.R().Id)
	}
	got2, err := ctx2.R().Pack()
	if err != nil {
		// (the unpacked ECS address is an IPv4-mapped 16 byte slice; once its
		// shared bytes were rewritten the cached entry cannot be packed.)
		t.Fatalf("PROPERTY VIOLATED: mutating the freshly stored response of query 1 made the hit of query 2 unpackable: %v\n got: %v", err, ctx2.R())
	}
	if w := want(2); !bytes.Equal(got2, w) {
		t.Errorf("PROPERTY VIOLATED: mutating the freshly stored response of query 1 changed what query 2 is served from cache\n got: %v\nwant: %v", ctx2.R(), mustUnpack(t, w))
	}

	// a later plugin does whatever it likes to the hit of query 2.
	auditMutateEverything(ctx2.R())

	// query 3: hit.
	ctx3 := auditQuery(t, c, 3, upstream)
	if upstreamCalls != 1 {
		t.Fatalf("query 3 should be a hit")
	}
	got3, err := ctx3.R().Pack()
	if err != nil {
		t.Fatalf("PROPERTY VIOLATED: mutating the hit of query 2 made the hit of query 3 unpackable: %v\n hit3: %v", err, ctx3.R())
	}
	got3[0], got3[1] = got2[0], got2[1] // ignore the id
	if !bytes.Equal(got3, got2) {
		t.Errorf("PROPERTY VIOLATED: mutating the hit of query 2 changed what query 3 is served from cache\n hit2: %v\n hit3: %v", mustUnpack(t, got2), ctx3.R())
	}
}

func mustUnpack(t *testing.T, b []byte) *dns.Msg {
	t.Helper()
	m := new(dns.Msg)
	if err := m.Unpack(b); err != nil {
		t.Fatal(err)
	}
	return m
}

func TestAuditC10_OptInAnswerSection(t *testing.T)    { auditOptOutsideAdditional(t, false) }
func TestAuditC10_OptInAuthoritySection(t *testing.T) { auditOptOutsideAdditional(t, true) }

// Same thing, seen by the race detector: two concurrent hits, each owner
// rewrites the record data of *its own* hit. Only meaningful with -race.
func TestAuditC10_OptInAnswerSection_ConcurrentHits(t *testing.T) {
	c := NewCache(&Args{Size: 1024}, Opts{})
	defer c.Close()
	wire := auditUpstreamWire(t, false)
	upstream := sequence.ExecutableFunc(func(_ context.Context, qCtx *query_context.Context) error {
		if qCtx.R() != nil {
			return nil
		}
		r := new(dns.Msg)
		if err := r.Unpack(wire); err != nil {
			return err
		}
		r.Id = qCtx.Q().Id
		qCtx.SetResponse(r)
		return nil
	})
	auditQuery(t, c, 1, upstream) // store

	hits := make([]*dns.Msg, 2)
	for i := range hits {
		hits[i] = auditQuery(t, c, uint16(10+i), upstream).R()
	}
	ecsAddr := func(m *dns.Msg) []byte {
		for _, rr := range m.Answer {
			if opt, ok := rr.(*dns.OPT); ok {
				for _, o := range opt.Option {
					if e, ok := o.(*dns.EDNS0_SUBNET); ok && len(e.Address) > 0 {
						return e.Address
					}
				}
			}
		}
		return nil // the cache did not keep the misplaced OPT: nothing to share
	}
	if a0, a1 := ecsAddr(hits[0]), ecsAddr(hits[1]); a0 != nil && a1 != nil && &a0[0] == &a1[0] {
		t.Errorf("PROPERTY VIOLATED: two hits share the backing array of the ECS address (%p)", &a0[0])
	}
	var wg sync.WaitGroup
	for _, h := range hits {
		h := h
		wg.Add(1)
		go func() {
			defer wg.Done()
			auditScribble(reflect.ValueOf(h), 0) // data race on the shared bytes under -race
		}()
	}
	wg.Wait()
}

// ---------------------------------------------------------------------------
// Finding 1, variant b: entries that enter the cache through readDump
// (dump file at start-up, POST /load_dump) are stored exactly as unpacked,
// i.e. without going through copyNoOpt. An entry with an OPT in the additional
// section is then handed out with a shallow copy of its options too.
// ---------------------------------------------------------------------------

func TestAuditC10_DumpLoadedEntryKeepsOpt(t *testing.T) {
	// Produce a dump that contains one entry whose message carries an OPT
	// (with an ECS option) in its additional section.
	q := new(dns.Msg)
	q.SetQuestion("example.org.", dns.TypeA)
	k := getMsgKey(q)

	m := new(dns.Msg)
	m.SetReply(q)
	m.Answer = []dns.RR{&dns.A{Hdr: dns.RR_Header{Name: "example.org.", Rrtype: dns.TypeA, Class: dns.ClassINET, Ttl: 300}, A: []byte{192, 0, 2, 1}}}
	opt := &dns.OPT{Hdr: dns.RR_Header{Name: ".", Rrtype: dns.TypeOPT}}
	opt.SetUDPSize(1232)
	opt.Option = []dns.EDNS0{auditECS()}
	m.Extra = []dns.RR{opt}

	producer := NewCache(&Args{Size: 1024}, Opts{})
	defer producer.Close()
	now := time.Now()
	producer.backend.Store(key(k), &item{resp: m, storedTime: now, expirationTime: now.Add(time.Hour)}, now.Add(time.Hour))
	dump := new(bytes.Buffer)
	if _, err := producer.writeDump(dump); err != nil {
		t.Fatal(err)
	}

	c := NewCache(&Args{Size: 1024}, Opts{})
	defer c.Close()
	if n, err := c.readDump(dump); err != nil || n != 1 {
		t.Fatalf("readDump: %d, %v", n, err)
	}

	hit1, _ := getRespFromCache(k, c.backend, false, expiredMsgTtl)
	if hit1 == nil {
		t.Fatal("expected a hit")
	}
	before := auditPack(t, hit1)
	auditScribble(reflect.ValueOf(hit1), 0) // rewrite record data of *this* hit in place

	hit2, _ := getRespFromCache(k, c.backend, false, expiredMsgTtl)
	after, err := hit2.Pack()
	if err != nil {
		t.Fatalf("PROPERTY VIOLATED: mutating hit 1 made hit 2 unpackable: %v\n hit2: %v", err, hit2)
	}
	if !bytes.Equal(before, after) {
		t.Errorf("PROPERTY VIOLATED: mutating hit 1 changed hit 2\n hit1 (before mutation): %v\n hit2: %v", mustUnpack(t, before), hit2)
	}
}

// Variant b under the race detector, with no adversarial mutation at all:
// writeDump packs the stored message in place (dns.Msg.Pack rewrites the
// extended-rcode bits of an OPT in the additional section) while a concurrent
// hit deep-copies the same stored message. Only meaningful with -race.
func TestAuditC10_DumpLoadedEntryKeepsOpt_DumpRacesWithHit(t *testing.T) {
	q := new(dns.Msg)
	q.SetQuestion("example.org.", dns.TypeA)
	k := getMsgKey(q)
	m := new(dns.Msg)
	m.SetReply(q)
	m.Answer = []dns.RR{&dns.A{Hdr: dns.RR_Header{Name: "example.org.", Rrtype: dns.TypeA, Class: dns.ClassINET, Ttl: 300}, A: []byte{192, 0, 2, 1}}}
	opt := &dns.OPT{Hdr: dns.RR_Header{Name: ".", Rrtype: dns.TypeOPT}}
	opt.SetUDPSize(1232)
	m.Extra = []dns.RR{opt}

	producer := NewCache(&Args{Size: 1024}, Opts{})
	defer producer.Close()
	now := time.Now()
	producer.backend.Store(key(k), &item{resp: m, storedTime: now, expirationTime: now.Add(time.Hour)}, now.Add(time.Hour))
	dump := new(bytes.Buffer)
	if _, err := producer.writeDump(dump); err != nil {
		t.Fatal(err)
	}

	c := NewCache(&Args{Size: 1024}, Opts{})
	defer c.Close()
	if _, err := c.readDump(dump); err != nil {
		t.Fatal(err)
	}
	var wg sync.WaitGroup
	wg.Add(2)
	go func() {
		defer wg.Done()
		for i := 0; i < 200; i++ {
			_, _ = c.writeDump(new(bytes.Buffer)) // GET /dump, or the periodic dump
		}
	}()
	go func() {
		defer wg.Done()
		for i := 0; i < 2000; i++ {
			getRespFromCache(k, c.backend, false, expiredMsgTtl)
		}
	}()
	wg.Wait()
}
