package cache

// Audit C05, finding 1: NXDOMAIN / SERVFAIL replies are stored for a fixed
// 30 s / 5 s no matter what the TTLs of their records are. A negative reply
// whose records have TTL 0 is stored, and a negative reply whose smallest
// record TTL is shorter than 30 s / 5 s keeps being served from the cache
// (with its TTL clamped to 1) after that TTL has run out.

import (
	"context"
	"sync/atomic"
	"testing"
	"time"

	"github.com/IrineSistiana/mosdns/v5/pkg/query_context"
	"github.com/IrineSistiana/mosdns/v5/plugin/executable/sequence"
	"github.com/miekg/dns"
)

func zzSOA(name string, ttl uint32) dns.RR {
	return &dns.SOA{
		Hdr: dns.RR_Header{Name: name, Rrtype: dns.TypeSOA, Class: dns.ClassINET, Ttl: ttl},
		Ns:  "ns.example.", Mbox: "mbox.example.", Serial: 1, Refresh: 1, Retry: 1, Expire: 1, Minttl: ttl,
	}
}

// zzUpstream is the "next plugin": like the usual `has_resp -> accept` +
// `forward` tail of a sequence. It only answers (and counts) if the cache
// did not put a response into the query context.
func zzUpstream(calls *atomic.Int32, rcode int, soaTtl uint32, withOpt bool) sequence.ChainWalker {
	f := func(_ context.Context, qCtx *query_context.Context) error {
		if qCtx.R() != nil {
			return nil // served by the cache
		}
		calls.Add(1)
		r := new(dns.Msg)
		r.SetRcode(qCtx.Q(), rcode)
		r.Ns = []dns.RR{zzSOA("example.", soaTtl)}
		if withOpt {
			r.SetEdns0(1232, false)
		}
		qCtx.SetResponse(r)
		return nil
	}
	n := &sequence.ChainNode{E: sequence.ExecutableFunc(f)}
	return sequence.NewChainWalker([]*sequence.ChainNode{n}, nil)
}

func zzQuery(t *testing.T, c *Cache, next sequence.ChainWalker) *dns.Msg {
	t.Helper()
	q := new(dns.Msg)
	q.SetQuestion("nx.example.", dns.TypeA)
	qCtx := query_context.NewContext(q)
	if err := c.Exec(context.Background(), qCtx, next); err != nil {
		t.Fatal(err)
	}
	if qCtx.R() == nil {
		t.Fatal("no response")
	}
	return qCtx.R()
}

func TestZZAudit_NegativeReplyIgnoresRecordTTL(t *testing.T) {
	tests := []struct {
		name   string
		rcode  int
		soaTtl uint32 // the only (hence the smallest) ttl of the reply
		opt    bool
		lazy   int
		wait   time.Duration // elapsed time between the two queries. >= soaTtl.
	}{
		{name: "NXDOMAIN zero ttl is stored", rcode: dns.RcodeNameError, soaTtl: 0, wait: 0},
		{name: "NXDOMAIN zero ttl is stored (with OPT, lazy on)", rcode: dns.RcodeNameError, soaTtl: 0, opt: true, lazy: 3600, wait: 0},
		{name: "SERVFAIL zero ttl is stored", rcode: dns.RcodeServerFailure, soaTtl: 0, wait: 0},
		{name: "NXDOMAIN ttl 2 served after 2.1s", rcode: dns.RcodeNameError, soaTtl: 2, wait: 2100 * time.Millisecond},
		{name: "SERVFAIL ttl 1 served after 1.1s", rcode: dns.RcodeServerFailure, soaTtl: 1, wait: 1100 * time.Millisecond},
	}
	for _, tt := range tests {
		tt := tt
		t.Run(tt.name, func(t *testing.T) {
			t.Parallel()
			c := NewCache(&Args{LazyCacheTTL: tt.lazy}, Opts{})
			defer c.Close()

			calls := new(atomic.Int32)
			next := zzUpstream(calls, tt.rcode, tt.soaTtl, tt.opt)

			zzQuery(t, c, next) // miss, goes to upstream
			if n := calls.Load(); n != 1 {
				t.Fatalf("first query: upstream called %d times, want 1", n)
			}
			if tt.soaTtl == 0 && c.backend.Len() != 0 {
				t.Errorf("a reply whose smallest ttl is 0 was stored (%d entry in cache)", c.backend.Len())
			}

			time.Sleep(tt.wait)

			// The smallest ttl of the reply has run out. The cache must not
			// serve it, the query has to reach the upstream again.
			r := zzQuery(t, c, next)
			if n := calls.Load(); n != 2 {
				t.Errorf("second query after %v: upstream called %d times in total, want 2: "+
					"the reply (smallest ttl %d) was served from the cache with ttl %d",
					tt.wait, n, tt.soaTtl, r.Ns[0].Header().Ttl)
			}
		})
	}
}
