package doh

import (
	"bytes"
	"context"
	"encoding/binary"
	"io"
	"net/http"
	"sync"
	"testing"
	"time"
)

// A context whose Done() is only answered after the reply was received: it models a caller
// that is descheduled between starting the request goroutine and entering its final select,
// and whose deadline passes (after the reply was read) during that time.
type auditLateCtx struct {
	context.Context
	replyRead <-chan struct{}
	once      sync.Once
	done      chan struct{}
}

func (c *auditLateCtx) Done() <-chan struct{} {
	<-c.replyRead                    // the reply was read from the http body
	time.Sleep(time.Millisecond * 5) // ... and handed to the result channel
	c.once.Do(func() { close(c.done) })
	return c.done // now the deadline passes
}

func (c *auditLateCtx) Err() error {
	select {
	case <-c.done:
		return context.DeadlineExceeded
	default:
		return nil
	}
}

type auditBody struct {
	r    io.Reader
	once sync.Once
	eof  chan struct{}
}

func (b *auditBody) Read(p []byte) (int, error) {
	n, err := b.r.Read(p)
	if err == io.EOF {
		b.once.Do(func() { close(b.eof) })
	}
	return n, err
}
func (b *auditBody) Close() error { return nil }

type auditRT struct{ body *auditBody }

func (rt *auditRT) RoundTrip(req *http.Request) (*http.Response, error) {
	return &http.Response{StatusCode: 200, Body: rt.body, Header: http.Header{}, Request: req}, nil
}

// The reply is completely read (and queued for the caller) before the caller's deadline
// passes. ExchangeContext must return it.
func TestAuditDoHReplyBeforeDeadline(t *testing.T) {
	lost := 0
	const n = 40
	for i := 0; i < n; i++ {
		reply := make([]byte, 12+5)
		reply[2] = 0x80
		body := &auditBody{r: bytes.NewReader(reply), eof: make(chan struct{})}
		u, err := NewUpstream("https://dns.test/dns-query", &auditRT{body: body}, nil)
		if err != nil {
			t.Fatal(err)
		}
		ctx := &auditLateCtx{Context: context.Background(), replyRead: body.eof, done: make(chan struct{})}
		q := make([]byte, 12+5)
		binary.BigEndian.PutUint16(q, 0x1234)
		r, err := u.ExchangeContext(ctx, q)
		if err != nil {
			lost++
			continue
		}
		if binary.BigEndian.Uint16(*r) != 0x1234 {
			t.Fatalf("wrong id")
		}
	}
	if lost > 0 {
		t.Fatalf("%d of %d replies that were read before the caller's deadline were lost (context deadline exceeded)", lost, n)
	}
}
