package domain

import (
	"testing"

	"github.com/miekg/dns"
)

// zzQuestionName builds a wire-format query whose QNAME consists of the given
// raw labels, unpacks it with miekg/dns exactly as the servers do, and returns
// Question[0].Name, i.e. the string the qname matcher / hosts / redirect
// plugins hand to Matcher.Match.
func zzQuestionName(t *testing.T, labels ...string) string {
	t.Helper()
	wire := []byte{0, 1, 1, 0, 0, 1, 0, 0, 0, 0, 0, 0}
	for _, l := range labels {
		wire = append(wire, byte(len(l)))
		wire = append(wire, l...)
	}
	wire = append(wire, 0, 0, 1, 0, 1) // root, TYPE A, CLASS IN
	m := new(dns.Msg)
	if err := m.Unpack(wire); err != nil {
		t.Fatal(err)
	}
	return m.Question[0].Name
}

// The name with the two labels "a.example" and "com" (a legal name: any octet
// may appear in a label, RFC 1035 3.1 / RFC 2181 11) is a child of "com". It is
// not "example.com" and not below "example.com"; "example.com" is only a string
// suffix of its presentation form `a\.example.com.`.
func TestZZAudit_EscapedDotIsNotALabelBoundary(t *testing.T) {
	name := zzQuestionName(t, "a.example", "com")
	if name != `a\.example.com.` {
		t.Fatalf("unexpected presentation form %q", name)
	}
	if n, _ := dns.IsDomainName(name); n != 2 {
		t.Fatalf("name should have 2 labels, has %d", n)
	}
	if dns.IsSubDomain("example.com.", name) {
		t.Fatal("miekg/dns considers it a subdomain; test premise broken")
	}

	sub := NewSubDomainMatcher[int]()
	_ = sub.Add("example.com", 1)
	if v, ok := sub.Match(name); ok {
		t.Errorf("SubDomainMatcher: rule domain:example.com matched %q (value %d): a string suffix, not a label boundary", name, v)
	}

	// Value precedence is corrupted the same way: the only rule that
	// describes the name is domain:com.
	mix := NewMixMatcher[string]()
	mix.SetDefaultMatcher(MatcherDomain)
	_ = mix.Add("domain:com", "com-rule")
	_ = mix.Add("domain:example.com", "example.com-rule")
	if v, ok := mix.Match(name); !ok || v != "com-rule" {
		t.Errorf("MixMatcher: %q -> (%q, %v), want (\"com-rule\", true)", name, v, ok)
	}

	// And the converse: a real subdomain whose first label ends in a
	// backslash (`a\\.example.com.`) must still match.
	name2 := zzQuestionName(t, `a\`, "example", "com")
	if !dns.IsSubDomain("example.com.", name2) {
		t.Fatalf("premise: %q is a subdomain of example.com.", name2)
	}
	if _, ok := sub.Match(name2); !ok {
		t.Errorf("SubDomainMatcher: rule domain:example.com did not match %q", name2)
	}
}
