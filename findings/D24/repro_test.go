package fallback

import (
	"context"
	"runtime"
	"runtime/debug"
	"sync/atomic"
	"testing"
	"time"

	"github.com/IrineSistiana/mosdns/v5/pkg/pool"
	"github.com/IrineSistiana/mosdns/v5/pkg/query_context"
	"github.com/IrineSistiana/mosdns/v5/plugin/executable/sequence"
	"github.com/miekg/dns"
	"go.uber.org/zap"
)

// answerAfter returns an executable that answers with an A record carrying ip
// after d (or fails with the context's error if the context ends first).
func answerAfter(d time.Duration, ip string, started *atomic.Int32) sequence.Executable {
	return sequence.ExecutableFunc(func(ctx context.Context, qCtx *query_context.Context) error {
		if started != nil {
			started.Add(1)
		}
		if d > 0 {
			select {
			case <-time.After(d):
			case <-ctx.Done():
				return context.Cause(ctx)
			}
		}
		r := new(dns.Msg)
		r.SetReply(qCtx.Q())
		rr, _ := dns.NewRR("example.com. 60 IN A " + ip)
		r.Answer = append(r.Answer, rr)
		qCtx.SetResponse(r)
		return nil
	})
}

func newQ() *query_context.Context {
	q := new(dns.Msg)
	q.SetQuestion("example.com.", dns.TypeA)
	return query_context.NewContext(q)
}

func answerIP(qCtx *query_context.Context) string {
	r := qCtx.R()
	if r == nil || len(r.Answer) == 0 {
		return "<none>"
	}
	return r.Answer[0].(*dns.A).A.String()
}

// leaveTimersInPoolThatWereReleasedWhileFiring uses only the public pool API,
// exactly as fallback's secondary goroutine does (GetTimer ... ReleaseTimer):
// the timer is released at the instant it fires. That is what happens in
// fallback itself whenever the secondary goroutine returns around the
// threshold (primary done ~ at the threshold without always_standby; secondary
// finished ~ at the threshold with it).
// It returns how many pooled timers now carry a tick that nobody consumed.
func leaveTimersInPoolThatWereReleasedWhileFiring(want int, budget time.Duration) (stale int, tries int) {
	runtime.LockOSThread()
	defer runtime.UnlockOSThread()
	const d = 20 * time.Microsecond
	var keep []*time.Timer // clean timers taken out of the pool again, kept out of it.
	deadline := time.Now().Add(budget)
	for stale < want && time.Now().Before(deadline) {
		tries++
		tm := pool.GetTimer(d)
		start := time.Now()
		for time.Since(start) < d+time.Duration(tries%8)*time.Microsecond {
		}
		pool.ReleaseTimer(tm) // legal use: every GetTimer is paired with ReleaseTimer
		start = time.Now()
		for time.Since(start) < 30*time.Microsecond {
		}
		if len(tm.C) == 1 {
			stale++ // tm is in the pool and has an unconsumed tick
			continue
		}
		// tm is clean; take a timer out of the pool again so that the pool does
		// not fill with clean timers (only to make the demonstration short).
		t2 := pool.GetTimer(time.Hour)
		if len(t2.C) == 1 {
			stale--
		}
		keep = append(keep, t2)
	}
	for _, k := range keep {
		k.Stop()
	}
	return stale, tries
}

// always_standby: the primary answers after 100ms, far inside the 5s threshold.
// The secondary finishes at once and must wait; its answer must be discarded.
func TestZZStandbyThresholdFiresEarly(t *testing.T) {
	defer debug.SetGCPercent(debug.SetGCPercent(-1)) // keep sync.Pool content
	stale, tries := leaveTimersInPoolThatWereReleasedWhileFiring(64, 4*time.Second)
	t.Logf("%d timers got their tick after ReleaseTimer had drained them (%d Get/Release pairs)", stale, tries)

	for i := 0; i < 10; i++ {
		f := &fallback{
			logger:               zap.NewNop(),
			primary:              answerAfter(100*time.Millisecond, "1.1.1.1", nil),
			secondary:            answerAfter(0, "2.2.2.2", nil),
			fastFallbackDuration: 5 * time.Second,
			alwaysStandby:        true,
		}
		qCtx := newQ()
		start := time.Now()
		if err := f.Exec(context.Background(), qCtx); err != nil {
			t.Fatal(err)
		}
		if got := answerIP(qCtx); got != "1.1.1.1" {
			t.Fatalf("run %d: primary answers after 100ms, threshold is 5s, but the caller got %s after %v (secondary's answer released before the threshold)", i, got, time.Since(start))
		}
	}
}

// without always_standby: the secondary must not even be started while the
// primary is within the threshold.
func TestZZSecondaryStartedBeforeThreshold(t *testing.T) {
	defer debug.SetGCPercent(debug.SetGCPercent(-1))
	stale, tries := leaveTimersInPoolThatWereReleasedWhileFiring(64, 4*time.Second)
	t.Logf("%d timers got their tick after ReleaseTimer had drained them (%d Get/Release pairs)", stale, tries)

	for i := 0; i < 10; i++ {
		var secStarted atomic.Int32
		f := &fallback{
			logger:               zap.NewNop(),
			primary:              answerAfter(100*time.Millisecond, "1.1.1.1", nil),
			secondary:            answerAfter(0, "2.2.2.2", &secStarted),
			fastFallbackDuration: 5 * time.Second,
			alwaysStandby:        false,
		}
		qCtx := newQ()
		if err := f.Exec(context.Background(), qCtx); err != nil {
			t.Fatal(err)
		}
		time.Sleep(120 * time.Millisecond)
		if got := answerIP(qCtx); got != "1.1.1.1" || secStarted.Load() != 0 {
			t.Fatalf("run %d: primary answers after 100ms, threshold is 5s: caller got %s, secondary started %d time(s)", i, got, secStarted.Load())
		}
	}
}

// Same defect, driven through fallback.Exec only (no direct use of the timer
// pool). Phase 1: ordinary always_standby calls with a 50us threshold whose
// secondary finishes (without an answer) right around the threshold, so its
// goroutine releases the timer while it fires. Phase 2: calls with a 5s
// threshold and a primary that answers after 50ms.
func TestZZOnlyThroughExec(t *testing.T) {
	defer debug.SetGCPercent(debug.SetGCPercent(-1))

	for round := 0; round < 60; round++ {
		// phase 1
		for i := 0; i < 300; i++ {
			const th = 50 * time.Microsecond
			d := th + time.Duration(i%8)*time.Microsecond
			secDone := make(chan struct{})
			f := &fallback{
				logger:  zap.NewNop(),
				primary: answerAfter(0, "1.1.1.1", nil),
				secondary: sequence.ExecutableFunc(func(ctx context.Context, qCtx *query_context.Context) error {
					defer close(secDone)
					start := time.Now()
					for time.Since(start) < d {
					}
					return nil // no answer
				}),
				fastFallbackDuration: th,
				alwaysStandby:        true,
			}
			if err := f.Exec(context.Background(), newQ()); err != nil {
				t.Fatal(err)
			}
			<-secDone
		}
		time.Sleep(time.Millisecond)
		// phase 2
		for i := 0; i < 5; i++ {
			var secStarted atomic.Int32
			f := &fallback{
				logger:               zap.NewNop(),
				primary:              answerAfter(50*time.Millisecond, "1.1.1.1", nil),
				secondary:            answerAfter(0, "2.2.2.2", &secStarted),
				fastFallbackDuration: 5 * time.Second,
			}
			qCtx := newQ()
			if err := f.Exec(context.Background(), qCtx); err != nil {
				t.Fatal(err)
			}
			if got := answerIP(qCtx); got != "1.1.1.1" || secStarted.Load() != 0 {
				t.Fatalf("round %d call %d: primary answers after 50ms, threshold 5s: caller got %s, secondary started %d time(s)", round, i, got, secStarted.Load())
			}
		}
	}
}
