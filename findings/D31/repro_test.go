package cache

// Audit C19, finding 6: Close writes the final dump while the periodic dump
// loop is still running. A tick that fires during the final dump starts a second
// writer that truncates the same file; when Close returns (and the process
// exits) the file is a mix of both streams.

import (
	"fmt"
	"os"
	"path/filepath"
	"testing"
	"time"

	"github.com/miekg/dns"
)

func TestAudit6FinalDumpClobberedByPeriodicDump(t *testing.T) {
	dumpFile := filepath.Join(t.TempDir(), "cache.dump")
	const n = 300000
	t0 := time.Now()
	c := NewCache(&Args{Size: 64 * n, DumpFile: dumpFile, DumpInterval: 1}, Opts{}) // first tick at t0+1s

	m := new(dns.Msg)
	m.SetQuestion("example.", dns.TypeA)
	rr, _ := dns.NewRR("example. 3600 IN A 192.0.2.1")
	m.Answer = append(m.Answer, rr)
	exp := time.Now().Add(time.Hour)
	for i := 0; i < n; i++ {
		c.backend.Store(key(fmt.Sprintf("k%07d", i)), &item{resp: m, storedTime: t0, expirationTime: exp}, exp)
	}
	live := c.backend.Len()
	c.updatedKey.Add(n) // as Exec does for every stored response
	t.Logf("filled %d entries in %v", live, time.Since(t0))
	if time.Since(t0) > 900*time.Millisecond {
		t.Skip("machine too slow to place the shutdown before the first tick")
	}

	// Shutdown begins shortly before the tick.
	time.Sleep(time.Until(t0.Add(950 * time.Millisecond)))
	st := time.Now()
	c.Close()
	t.Logf("Close took %v", time.Since(st))

	// Close has returned: coremain now lets the process exit. This is the file a restart will find.
	atExit, err := os.ReadFile(dumpFile)
	if err != nil {
		t.Fatal(err)
	}
	restartFile := filepath.Join(t.TempDir(), "restart.dump")
	if err := os.WriteFile(restartFile, atExit, 0o600); err != nil {
		t.Fatal(err)
	}
	c2 := NewCache(&Args{Size: 64 * n}, Opts{})
	defer c2.Close()
	c2.args.DumpFile = restartFile
	err = c2.loadDump()
	c2.args.DumpFile = ""
	if err != nil || c2.backend.Len() != live {
		t.Errorf("after a clean shutdown the restart loads %d of %d entries, err: %v", c2.backend.Len(), live, err)
	}
	time.Sleep(2 * time.Second) // let the stray periodic dump finish before TempDir cleanup
}
