package cache

import (
	"context"
	"net"
	"testing"

	"github.com/IrineSistiana/mosdns/v5/pkg/query_context"
	"github.com/IrineSistiana/mosdns/v5/pkg/server"
	"github.com/IrineSistiana/mosdns/v5/pkg/server_handler"
	"github.com/IrineSistiana/mosdns/v5/plugin/executable/sequence"
	"github.com/miekg/dns"
)

// auditQuery builds the query exactly as a client would put it on the wire
// (it is packed and unpacked again, like the servers do) and wraps it in a
// query context with the only constructor the project offers,
// query_context.NewContext, which is also what server_handler.EntryHandler
// does with every incoming query.
func auditQuery(t *testing.T, name string, qtype, qclass uint16, ad, cd, do bool) *query_context.Context {
	t.Helper()
	q := new(dns.Msg)
	q.Id = dns.Id()
	q.RecursionDesired = true
	q.Question = []dns.Question{{Name: name, Qtype: qtype, Qclass: qclass}}
	q.AuthenticatedData = ad
	q.CheckingDisabled = cd
	q.SetEdns0(1232, do)
	wire, err := q.Pack()
	if err != nil {
		t.Fatal(err)
	}
	q2 := new(dns.Msg)
	if err := q2.Unpack(wire); err != nil {
		t.Fatal(err)
	}
	if opt := q2.IsEdns0(); opt == nil || opt.Do() != do {
		t.Fatal("test setup: DO bit lost on the wire")
	}
	return query_context.NewContext(q2)
}

type auditUpstream struct {
	calls int
}

// Exec is the fake "next plugin". The cache plugin always walks on to the
// next node, with the cached answer already set as response on a hit (real
// configurations follow it with "matches: has_resp, exec: accept"). So the
// fake does what a forwarder behind such a rule does: it leaves a query that
// already has a response alone, and otherwise answers it and counts.
func (u *auditUpstream) Exec(_ context.Context, qCtx *query_context.Context) error {
	if qCtx.R() != nil {
		return nil // answered from cache
	}
	u.calls++
	r := new(dns.Msg)
	r.SetReply(qCtx.Q())
	r.Answer = append(r.Answer, &dns.A{
		Hdr: dns.RR_Header{Name: qCtx.QQuestion().Name, Rrtype: dns.TypeA, Class: dns.ClassINET, Ttl: 300},
		A:   net.IPv4(192, 0, 2, byte(u.calls)),
	})
	qCtx.SetResponse(r)
	return nil
}

// runPair runs a, then b through one fresh cache and reports whether b
// reached the next plugin (true) or was answered from the cache (false).
func runPair(t *testing.T, a, b *query_context.Context) (secondReachedNext bool) {
	t.Helper()
	c := NewCache(&Args{Size: 1024}, Opts{})
	defer c.Close()
	up := new(auditUpstream)
	chain := []*sequence.ChainNode{{E: up}}

	if err := c.Exec(context.Background(), a, sequence.NewChainWalker(chain, nil)); err != nil {
		t.Fatal(err)
	}
	if up.calls != 1 {
		t.Fatalf("first query: next plugin called %d times, want 1", up.calls)
	}
	if err := c.Exec(context.Background(), b, sequence.NewChainWalker(chain, nil)); err != nil {
		t.Fatal(err)
	}
	return up.calls == 2
}

// Control: the cache works at all (an identical second query is a hit), and
// AD / CD do separate entries. Passes on the clean tree.
func TestAudit_Control_SameQueryHits_AD_CD_Separate(t *testing.T) {
	if runPair(t,
		auditQuery(t, "example.com.", dns.TypeA, dns.ClassINET, false, false, true),
		auditQuery(t, "example.com.", dns.TypeA, dns.ClassINET, false, false, true)) {
		t.Fatal("identical second query was not answered from cache")
	}
	if !runPair(t,
		auditQuery(t, "example.com.", dns.TypeA, dns.ClassINET, true, false, false),
		auditQuery(t, "example.com.", dns.TypeA, dns.ClassINET, false, false, false)) {
		t.Fatal("AD=1 entry served to AD=0 query")
	}
	if !runPair(t,
		auditQuery(t, "example.com.", dns.TypeA, dns.ClassINET, false, true, false),
		auditQuery(t, "example.com.", dns.TypeA, dns.ClassINET, false, false, false)) {
		t.Fatal("CD=1 entry served to CD=0 query")
	}
}

// The finding: two queries that differ only in the DO bit share a cache entry,
// in both store-then-lookup orders and for every AD/CD combination.
func TestAudit_DO_QueriesShareCacheEntry(t *testing.T) {
	for bits := 0; bits < 4; bits++ {
		ad, cd := bits&1 != 0, bits&2 != 0
		for _, firstDo := range []bool{true, false} {
			a := auditQuery(t, "example.com.", dns.TypeA, dns.ClassINET, ad, cd, firstDo)
			b := auditQuery(t, "example.com.", dns.TypeA, dns.ClassINET, ad, cd, !firstDo)
			if !runPair(t, a, b) {
				t.Errorf("AD=%v CD=%v: answer stored for the DO=%v query was served from cache to the DO=%v query",
					ad, cd, firstDo, !firstDo)
			}
		}
	}
}

// End to end: the same two client queries, handed to the project's real server
// entry point (server_handler.EntryHandler.Handle, which is what the UDP/TCP/
// DoH servers call with the unpacked client message), with a sequence made of
// the cache plugin followed by the fake upstream.
func TestAudit_DO_EndToEnd_EntryHandler(t *testing.T) {
	c := NewCache(&Args{Size: 1024}, Opts{})
	defer c.Close()
	up := new(auditUpstream)
	chain := []*sequence.ChainNode{{RE: c}, {E: up}}
	h := server_handler.NewEntryHandler(server_handler.EntryHandlerOpts{
		Entry: sequence.ExecutableFunc(func(ctx context.Context, qCtx *query_context.Context) error {
			w := sequence.NewChainWalker(chain, nil)
			return w.ExecNext(ctx, qCtx)
		}),
	})
	pack := func(m *dns.Msg) (*[]byte, error) {
		b, err := m.Pack()
		return &b, err
	}
	ask := func(do bool) *dns.Msg {
		q := new(dns.Msg)
		q.SetQuestion("example.com.", dns.TypeA)
		q.SetEdns0(1232, do)
		wire, err := q.Pack()
		if err != nil {
			t.Fatal(err)
		}
		q2 := new(dns.Msg)
		if err := q2.Unpack(wire); err != nil {
			t.Fatal(err)
		}
		p := h.Handle(context.Background(), q2, server.QueryMeta{}, pack)
		if p == nil {
			t.Fatal("no reply")
		}
		r := new(dns.Msg)
		if err := r.Unpack(*p); err != nil {
			t.Fatal(err)
		}
		return r
	}

	ask(true) // client 1: DO=1. Its answer is stored.
	if up.calls != 1 {
		t.Fatalf("upstream calls = %d, want 1", up.calls)
	}
	ask(false) // client 2: same question, DO=0.
	if up.calls != 2 {
		t.Fatalf("DO=0 query was answered from the entry stored for the DO=1 query (upstream calls = %d, want 2)", up.calls)
	}
}
