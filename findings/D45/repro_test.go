package cache

// Audit C19, finding 1: a few KB of arbitrary dump make readDump allocate (and
// keep) gigabytes. The only limit on an entry is the 4 MiB block length; a dns
// message of that size that uses compression pointers unpacks to ~500 times
// its size, and gzip hides the 4 MiB in ~4 KB.

import (
	"bytes"
	"encoding/binary"
	"runtime"
	"testing"
	"time"

	"github.com/klauspost/compress/gzip"
	"google.golang.org/protobuf/proto"
)

// auditBombMsg builds a dns response (< limit bytes) of HIP records whose
// rendezvous servers are compression pointers to the 255 byte question name.
func auditBombMsg(limit int) []byte {
	b := make([]byte, 12, limit)
	b[2] = 0x80 // QR
	b[5] = 1    // qdcount
	nameOff := len(b)
	for _, l := range []int{63, 63, 63, 61} { // 255 byte name, bytes that are escaped as \ddd
		b = append(b, byte(l))
		for i := 0; i < l; i++ {
			b = append(b, 0x01)
		}
	}
	b = append(b, 0)
	b = append(b, 0, 55, 0, 1) // HIP IN
	ptr := []byte{0xc0 | byte(nameOff>>8), byte(nameOff)}
	n := 0
	for {
		const servers = 32765
		rdlen := 4 + 2*servers
		rr := append([]byte{}, ptr...)
		rr = append(rr, 0, 55, 0, 1, 0, 0, 0x0e, 0x10, byte(rdlen>>8), byte(rdlen))
		rr = append(rr, 0, 0, 0, 0) // hit length 0, pk algorithm 0, pk length 0
		for i := 0; i < servers; i++ {
			rr = append(rr, ptr...)
		}
		if len(b)+len(rr) > limit {
			break
		}
		b = append(b, rr...)
		n++
	}
	binary.BigEndian.PutUint16(b[6:], uint16(n)) // ancount
	return b
}

func TestAuditC19_ArbitraryDumpAllocation(t *testing.T) {
	const entries = 2
	msg := auditBombMsg(dumpMaximumBlockLength - 1024)
	far := time.Now().Add(24 * time.Hour).Unix()

	buf := new(bytes.Buffer)
	gw, _ := gzip.NewWriterLevel(buf, gzip.BestCompression)
	gw.Name = dumpHeader
	for i := 0; i < entries; i++ {
		blk := &CacheDumpBlock{Entries: []*CachedEntry{{
			Key:                 []byte{byte(i)},
			Msg:                 msg,
			CacheExpirationTime: far,
			MsgExpirationTime:   far,
			MsgStoredTime:       far - 3600,
		}}}
		pb, err := proto.Marshal(blk)
		if err != nil {
			t.Fatal(err)
		}
		l := make([]byte, 8)
		binary.BigEndian.PutUint64(l, uint64(len(pb)))
		gw.Write(l)
		gw.Write(pb)
	}
	gw.Close()
	file := buf.Bytes()

	c := NewCache(&Args{}, Opts{})
	defer c.Close()

	var m0, m1 runtime.MemStats
	runtime.GC()
	runtime.ReadMemStats(&m0)
	start := time.Now()
	n, err := c.readDump(bytes.NewReader(file))
	el := time.Since(start)
	runtime.GC()
	runtime.ReadMemStats(&m1)

	retained := (int64(m1.HeapAlloc) - int64(m0.HeapAlloc)) >> 20
	total := (m1.TotalAlloc - m0.TotalAlloc) >> 20
	t.Logf("dump file: %d bytes; readDump: entries=%d err=%v in %v; cache len=%d; heap kept by the cache: %d MiB; allocated in total: %d MiB",
		len(file), n, err, el, c.backend.Len(), retained, total)

	// A file of a few KB must not pin (or even allocate) hundreds of MiB.
	const limitMiB = 256
	if retained > limitMiB || total > 4*limitMiB {
		t.Fatalf("a %d byte file made readDump allocate %d MiB and keep %d MiB (%d entries; the default cache takes 1024 of them)",
			len(file), total, retained, c.backend.Len())
	}
	runtime.KeepAlive(c)
}
