package transport

// Audit C02, finding 2.
//
// A reply that the connection reader has already read from the connection is lost
// if the caller's (re)send fails at that moment: the write-error paths close the
// connection and then look into the reply channel only once, without waiting for
// the reader to hand over what it has read (the final select of exchange() does
// wait for readLoopDone; the write-error paths don't).
//
// The reader is held right after its Read() returned the reply (in the deferred
// pool.ReleaseBuf of the rx / header buffer, pool.ReleaseBuf is a package variable).
// This is just a reader goroutine that is descheduled between "read" and "hand
// over". Nothing else is forced: the fake's Write returns its error only after the
// reader consumed the reply.

import (
	"context"
	"encoding/binary"
	"errors"
	"net"
	"sync"
	"syscall"
	"testing"
	"time"

	"github.com/IrineSistiana/mosdns/v5/pkg/pool"
	"github.com/miekg/dns"
	"go.uber.org/zap"
)

// auditFakeConn is an in-memory NetConn.
type auditFakeConn struct {
	mu      sync.Mutex
	rx      [][]byte // readable chunks (a chunk is a datagram, or a piece of the stream)
	rxReady chan struct{}
	closed  chan struct{}
	cOnce   sync.Once

	writeN  int
	onWrite func(n int, p []byte) error // n: 1,2,...
}

func newAuditFakeConn() *auditFakeConn {
	return &auditFakeConn{rxReady: make(chan struct{}, 1024), closed: make(chan struct{})}
}

func (c *auditFakeConn) push(b []byte) {
	c.mu.Lock()
	c.rx = append(c.rx, b)
	c.mu.Unlock()
	c.rxReady <- struct{}{}
}

func (c *auditFakeConn) Read(p []byte) (int, error) {
	for {
		c.mu.Lock()
		if len(c.rx) > 0 {
			n := copy(p, c.rx[0])
			if n < len(c.rx[0]) {
				c.rx[0] = c.rx[0][n:]
			} else {
				c.rx = c.rx[1:]
			}
			c.mu.Unlock()
			return n, nil
		}
		c.mu.Unlock()
		select {
		case <-c.rxReady:
		case <-c.closed:
			return 0, net.ErrClosed
		}
	}
}

func (c *auditFakeConn) Write(p []byte) (int, error) {
	select {
	case <-c.closed:
		return 0, net.ErrClosed
	default:
	}
	c.mu.Lock()
	c.writeN++
	n := c.writeN
	c.mu.Unlock()
	if err := c.onWrite(n, append([]byte(nil), p...)); err != nil {
		return 0, err
	}
	return len(p), nil
}

func (c *auditFakeConn) Close() error {
	c.cOnce.Do(func() { close(c.closed) })
	return nil
}
func (c *auditFakeConn) SetDeadline(time.Time) error      { return nil }
func (c *auditFakeConn) SetReadDeadline(time.Time) error  { return nil }
func (c *auditFakeConn) SetWriteDeadline(time.Time) error { return nil }

// holdReader installs a pool.ReleaseBuf that stops the goroutine that releases a
// buffer of length bufLen (the reader's rx buffer (udp) / length header buffer
// (stream), both are released right after the reply was read). It returns a channel
// that is closed when the reader got there and a func that lets the reader go on.
func holdReader(t *testing.T, bufLen int) (held <-chan struct{}, release func()) {
	org := pool.ReleaseBuf
	h := make(chan struct{})
	rel := make(chan struct{})
	var once, relOnce sync.Once
	pool.ReleaseBuf = func(b *[]byte) {
		if len(*b) == bufLen {
			first := false
			once.Do(func() { first = true })
			if first {
				close(h)
				<-rel
			}
		}
		org(b)
	}
	release = func() { relOnce.Do(func() { close(rel) }) }
	t.Cleanup(func() {
		release()
		pool.ReleaseBuf = org
	})
	return h, release
}

func auditQ(t *testing.T, id uint16) []byte {
	q := new(dns.Msg)
	q.SetQuestion("audit.test.", dns.TypeA)
	q.Id = id
	b, err := q.Pack()
	if err != nil {
		t.Fatal(err)
	}
	return b
}

type auditRes struct {
	r   *[]byte
	err error
}

// finish: the caller decided what to do when it closed the connection. Give it some
// time to return (it does at once on the clean tree), then let the reader go on.
func auditFinish(t *testing.T, conn *auditFakeConn, release func(), resC chan auditRes, wantId uint16) {
	t.Helper()
	select {
	case <-conn.closed:
	case <-time.After(time.Second * 5):
		t.Fatal("test bug: connection was not closed after the write error")
	}
	time.Sleep(time.Millisecond * 100)
	release()

	select {
	case res := <-resC:
		if res.err != nil {
			t.Fatalf("the reply had been read from the connection before the write failed, but the exchange failed: %v", res.err)
		}
		if id := binary.BigEndian.Uint16(*res.r); id != wantId {
			t.Fatalf("reply id %d, want %d", id, wantId)
		}
	case <-time.After(time.Second * 5):
		t.Fatal("exchange didn't return")
	}
}

// Datagram framing. The first transmission is answered after ~1s. The reply is
// being handed over when the retransmission timer fires, and the retransmission
// fails (e.g. ENETUNREACH, EPERM from a firewall rule, ECONNREFUSED from a queued
// ICMP error).
func TestAuditC02_2_UdpResendError(t *testing.T) {
	held, release := holdReader(t, dns.MaxMsgSize)
	conn := newAuditFakeConn()
	conn.onWrite = func(n int, p []byte) error {
		if n == 1 {
			return nil // sent
		}
		// The reply of the first transmission arrives now.
		p[2] |= 0x80
		conn.push(p)
		<-held // the reader has read it.
		return &net.OpError{Op: "write", Net: "udp", Err: syscall.ENETUNREACH}
	}
	dc := NewDnsConn(TraditionalDnsConnOpts{WithLengthHeader: false}, conn)
	defer dc.Close()

	rec, _ := dc.ReserveNewQuery()
	if rec == nil {
		t.Fatal("cannot reserve")
	}
	ctx, cancel := context.WithTimeout(context.Background(), time.Second*10)
	defer cancel()
	resC := make(chan auditRes, 1)
	go func() {
		r, err := rec.ExchangeReserved(ctx, auditQ(t, 4242))
		resC <- auditRes{r, err}
	}()
	auditFinish(t, conn, release, resC, 4242)
}

// Stream framing, pipelined. The reply arrives during the send, and the send
// returns an error.
func TestAuditC02_2_TcpWriteError(t *testing.T) {
	held, release := holdReader(t, 2)
	conn := newAuditFakeConn()
	conn.onWrite = func(n int, p []byte) error {
		p[4] |= 0x80
		conn.push(p) // length header + msg
		<-held       // the reader has read it.
		return errors.New("write: broken pipe")
	}
	dc := NewDnsConn(TraditionalDnsConnOpts{WithLengthHeader: true}, conn)
	defer dc.Close()

	rec, _ := dc.ReserveNewQuery()
	if rec == nil {
		t.Fatal("cannot reserve")
	}
	ctx, cancel := context.WithTimeout(context.Background(), time.Second*10)
	defer cancel()
	resC := make(chan auditRes, 1)
	go func() {
		r, err := rec.ExchangeReserved(ctx, auditQ(t, 4243))
		resC <- auditRes{r, err}
	}()
	auditFinish(t, conn, release, resC, 4243)
}

// Stream framing, non-pipelined transport.
func TestAuditC02_2_ReuseWriteError(t *testing.T) {
	held, release := holdReader(t, 2)
	conn := newAuditFakeConn()
	conn.onWrite = func(n int, p []byte) error {
		p[4] |= 0x80
		conn.push(p)
		<-held
		return errors.New("write: broken pipe")
	}
	tr := NewReuseConnTransport(ReuseConnOpts{
		DialContext: func(ctx context.Context) (NetConn, error) { return conn, nil },
		Logger:      zap.NewNop(),
	})
	defer tr.Close()

	ctx, cancel := context.WithTimeout(context.Background(), time.Second*10)
	defer cancel()
	resC := make(chan auditRes, 1)
	go func() {
		r, err := tr.ExchangeContext(ctx, auditQ(t, 4244))
		resC <- auditRes{r, err}
	}()
	auditFinish(t, conn, release, resC, 4244)
}
