package fastforward

// Audit C14, finding 1: the last exchange's non-definitive reply (SERVFAIL, REFUSED, ...)
// that arrived BEFORE the caller's context ended is dropped in favour of the context's
// error when the collecting goroutine only gets to its select after both happened.
//
// The schedule is forced through a context.Context that the test controls: its Done()
// method (which Forward.exchange calls when it evaluates its select) returns only after
//   1. the only queried upstream has returned its SERVFAIL reply and the helper
//      goroutine is blocked in the send on the result channel, and
//   2. after that, the context was cancelled.
// This is what happens when the collecting goroutine is preempted / not scheduled between
// the spawn of the helpers and its select (or between two iterations of the loop).
// No non-test source is touched, the upstream is an in-memory fake.

import (
	"context"
	"fmt"
	"sync"
	"testing"
	"time"

	"github.com/IrineSistiana/mosdns/v5/pkg/pool"
	"github.com/IrineSistiana/mosdns/v5/pkg/query_context"
	"github.com/miekg/dns"
	"go.uber.org/zap"
)

type auditRcodeUpstream struct {
	rcode    int
	returned chan struct{} // closed when ExchangeContext is about to return its reply
	once     sync.Once
}

func (u *auditRcodeUpstream) Close() error { return nil }

func (u *auditRcodeUpstream) ExchangeContext(ctx context.Context, m []byte) (*[]byte, error) {
	q := new(dns.Msg)
	if err := q.Unpack(m); err != nil {
		return nil, err
	}
	r := new(dns.Msg)
	r.SetRcode(q, u.rcode)
	b, err := pool.PackBuffer(r)
	u.once.Do(func() { close(u.returned) })
	return b, err
}

// auditGateCtx delays the goroutine that asks for Done() until gate returns.
type auditGateCtx struct {
	context.Context
	gate func()
}

func (c *auditGateCtx) Done() <-chan struct{} {
	c.gate()
	return c.Context.Done()
}

func auditRun(t *testing.T, rcode int) (got map[string]int) {
	got = make(map[string]int)
	for i := 0; i < 40; i++ {
		fu := &auditRcodeUpstream{rcode: rcode, returned: make(chan struct{})}
		uw := newWrapper(0, UpstreamConfig{Addr: "fake"}, "")
		uw.u = fu
		f := &Forward{args: &Args{Concurrent: 1}, logger: zap.NewNop(), us: []*upstreamWrapper{uw}}

		base, cancel := context.WithCancel(context.Background())
		var gateOnce sync.Once
		ctx := &auditGateCtx{Context: base, gate: func() {
			gateOnce.Do(func() {
				<-fu.returned                     // 1. the upstream has answered ...
				time.Sleep(30 * time.Millisecond) // ... and its helper is blocked in "resChan <- res".
				cancel()                          // 2. only then the caller's context ends.
			})
		}}

		qm := new(dns.Msg)
		qm.SetQuestion("example.", dns.TypeA)
		qCtx := query_context.NewContext(qm)
		err := f.Exec(ctx, qCtx)
		cancel()
		switch {
		case err != nil:
			got["err: "+err.Error()]++
		case qCtx.R() == nil:
			got["nil reply"]++
		default:
			got[fmt.Sprintf("reply rcode %d", qCtx.R().Rcode)]++
		}
	}
	return got
}

// Control: the repaired path (12fafcf). A NOERROR reply that arrived before ctx ended is kept.
func Test_Audit_C14_1_Control_GoodReplyKept(t *testing.T) {
	got := auditRun(t, dns.RcodeSuccess)
	if got["reply rcode 0"] != 40 {
		t.Fatalf("outcomes: %v", got)
	}
}

// The sibling path: the last (here: only) exchange finished with SERVFAIL before the
// caller's context ended. The property demands "the outcome is that of the last
// exchange to finish - its reply whatever the rcode"; the context did not end first.
func Test_Audit_C14_1_LastServfailReplyDropped(t *testing.T) {
	got := auditRun(t, dns.RcodeServerFailure)
	if got[fmt.Sprintf("reply rcode %d", dns.RcodeServerFailure)] != 40 {
		t.Fatalf("a SERVFAIL reply of the last exchange that arrived before ctx ended was dropped; outcomes of 40 calls: %v", got)
	}
}
