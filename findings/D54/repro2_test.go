package fastforward

import (
	"context"
	"sync"
	"testing"
	"time"

	"github.com/IrineSistiana/mosdns/v5/pkg/pool"
	"github.com/IrineSistiana/mosdns/v5/pkg/query_context"
	"github.com/miekg/dns"
	"go.uber.org/zap"
)

// auditUpstream answers every query at once with the given rcode and tells when it did.
type auditUpstream struct {
	rcode    int
	answered chan struct{}
	once     sync.Once
}

func (u *auditUpstream) ExchangeContext(_ context.Context, q []byte) (*[]byte, error) {
	m := new(dns.Msg)
	if err := m.Unpack(q); err != nil {
		return nil, err
	}
	r := new(dns.Msg)
	r.SetRcode(m, u.rcode)
	b, err := pool.PackBuffer(r)
	u.once.Do(func() { close(u.answered) })
	return b, err
}

func (u *auditUpstream) Close() error { return nil }

// gateCtx forces one legal schedule: the goroutine that runs Forward.exchange is
// held just before it enters its collecting select (ctx.Done() is evaluated at the
// entry of the select) until the upstream's reply has arrived, and only then the
// caller's context ends. Reply first, end of the context second, both before the
// select looks at its cases.
type gateCtx struct {
	context.Context
	gate func()
}

func (g *gateCtx) Done() <-chan struct{} {
	g.gate()
	return g.Context.Done()
}

func auditForwardOnce(t *testing.T, rcode int) (*dns.Msg, error) {
	u := &auditUpstream{rcode: rcode, answered: make(chan struct{})}
	uw := newWrapper(0, UpstreamConfig{Addr: "fake"}, "")
	uw.u = u
	f := &Forward{args: &Args{}, logger: zap.NewNop(), us: []*upstreamWrapper{uw}}

	q := new(dns.Msg)
	q.SetQuestion("example.com.", dns.TypeA)
	qCtx := query_context.NewContext(q)

	parent, cancel := context.WithCancel(context.Background())
	defer cancel()
	var once sync.Once
	ctx := &gateCtx{Context: parent, gate: func() {
		once.Do(func() {
			<-u.answered
			// The helper goroutine unpacks the reply and parks in its send.
			time.Sleep(time.Millisecond * 20)
			cancel()
		})
	}}
	return f.exchange(ctx, qCtx, f.us)
}

// The only upstream (concurrent = 1, the default) answered REFUSED before the caller's
// context ended. Without the end of the context Forward.exchange returns this reply (the
// last reply is returned whatever its rcode is), so it has to return it here as well.
func Test_Audit_Forward_LastReplyAtCtxEnd(t *testing.T) {
	for _, rcode := range []int{dns.RcodeSuccess, dns.RcodeRefused, dns.RcodeServerFailure} {
		lost := 0
		const n = 40
		for i := 0; i < n; i++ {
			r, err := auditForwardOnce(t, rcode)
			if err != nil || r == nil || r.Rcode != rcode {
				lost++
			}
		}
		if lost > 0 {
			t.Errorf("rcode %s: %d of %d replies that arrived before the context ended were dropped", dns.RcodeToString[rcode], lost, n)
		}
	}
}
