package domain

import "testing"

// Left over from edeaca9 (escaped dot is not a label separator): NormalizeDomain
// still cuts a trailing dot that is escaped, i.e. that belongs to the last label.
// The name with the labels "a" and "com." is `a.com\.` (relative) or `a.com\..` (fqdn).
func TestAuditEscapedTrailingDot(t *testing.T) {
	if got := NormalizeDomain(`a.com\.`); got != `a.com\.` {
		t.Errorf("NormalizeDomain(`a.com\\.`) = %q, cut an escaped dot", got)
	}

	sub := NewSubDomainMatcher[int]()
	_ = sub.Add(`com\.`, 1) // rule without trailing dot: the single label "com."
	if _, ok := sub.Match(`a.com\..`); !ok {
		t.Errorf("domain:com\\. does not match its subdomain a.com\\..")
	}
	if _, ok := sub.Match(`com\..`); !ok {
		t.Errorf("domain:com\\. does not match the same name written as fqdn")
	}

	full := NewFullMatcher[int]()
	_ = full.Add(`com\.`, 1)
	if _, ok := full.Match(`com\..`); !ok {
		t.Errorf("full:com\\. does not match the same name written as fqdn")
	}
}
