package upstream

// Audit C18, finding 2: a dial_addr without a port discards the port the user wrote
// in the upstream URL and silently replaces it by the scheme default.

import (
	"context"
	"crypto/ecdsa"
	"crypto/elliptic"
	"crypto/rand"
	"crypto/tls"
	"crypto/x509"
	"crypto/x509/pkix"
	"encoding/binary"
	"io"
	"math/big"
	"net"
	"strconv"
	"testing"
	"time"

	"github.com/miekg/dns"
)

type zzObs struct {
	dst          string // CONNECT destination seen by the socks5 proxy
	sni          string // SNI seen by the TLS listener behind the proxy
	gotHello     bool
	handshakeErr error // server side result of the TLS handshake
}

// zzSelfSigned makes a self-signed (CA) leaf certificate valid for the given IPs / names.
func zzSelfSigned(t testing.TB, ips []net.IP, names []string) (tls.Certificate, *x509.CertPool) {
	key, err := ecdsa.GenerateKey(elliptic.P256(), rand.Reader)
	if err != nil {
		t.Fatal(err)
	}
	tpl := &x509.Certificate{
		SerialNumber:          big.NewInt(1),
		Subject:               pkix.Name{CommonName: "zz audit"},
		NotBefore:             time.Now().Add(-time.Hour),
		NotAfter:              time.Now().Add(time.Hour),
		KeyUsage:              x509.KeyUsageDigitalSignature | x509.KeyUsageCertSign,
		ExtKeyUsage:           []x509.ExtKeyUsage{x509.ExtKeyUsageServerAuth},
		BasicConstraintsValid: true,
		IsCA:                  true,
		IPAddresses:           ips,
		DNSNames:              names,
	}
	der, err := x509.CreateCertificate(rand.Reader, tpl, tpl, &key.PublicKey, key)
	if err != nil {
		t.Fatal(err)
	}
	leaf, err := x509.ParseCertificate(der)
	if err != nil {
		t.Fatal(err)
	}
	pool := x509.NewCertPool()
	pool.AddCert(leaf)
	return tls.Certificate{Certificate: [][]byte{der}, PrivateKey: key, Leaf: leaf}, pool
}

// zzProxy is a minimal SOCKS5 proxy that records the CONNECT destination and then
// plays the TLS server itself (recording SNI and whether the client accepted cert).
func zzProxy(t testing.TB, cert tls.Certificate) (addr string, obs <-chan zzObs, stop func()) {
	l, err := net.Listen("tcp", "127.0.0.1:0")
	if err != nil {
		t.Fatal(err)
	}
	ch := make(chan zzObs, 8)
	go func() {
		for {
			c, err := l.Accept()
			if err != nil {
				return
			}
			go func() {
				defer c.Close()
				c.SetDeadline(time.Now().Add(3 * time.Second))
				hdr := make([]byte, 2)
				if _, err := io.ReadFull(c, hdr); err != nil {
					return
				}
				if _, err := io.ReadFull(c, make([]byte, hdr[1])); err != nil {
					return
				}
				c.Write([]byte{5, 0})
				req := make([]byte, 4)
				if _, err := io.ReadFull(c, req); err != nil {
					return
				}
				var host string
				switch req[3] {
				case 1:
					b := make([]byte, 4)
					io.ReadFull(c, b)
					host = net.IP(b).String()
				case 4:
					b := make([]byte, 16)
					io.ReadFull(c, b)
					host = net.IP(b).String()
				case 3:
					lb := make([]byte, 1)
					io.ReadFull(c, lb)
					b := make([]byte, lb[0])
					io.ReadFull(c, b)
					host = "(domain)" + string(b)
				}
				pb := make([]byte, 2)
				io.ReadFull(c, pb)
				o := zzObs{dst: net.JoinHostPort(host, strconv.Itoa(int(binary.BigEndian.Uint16(pb))))}
				c.Write([]byte{5, 0, 0, 1, 0, 0, 0, 0, 0, 0})
				tc := tls.Server(c, &tls.Config{GetConfigForClient: func(chi *tls.ClientHelloInfo) (*tls.Config, error) {
					o.sni = chi.ServerName
					o.gotHello = true
					return &tls.Config{Certificates: []tls.Certificate{cert}, NextProtos: []string{"h2"}}, nil
				}})
				o.handshakeErr = tc.Handshake()
				ch <- o
			}()
		}
	}()
	return l.Addr().String(), ch, func() { l.Close() }
}

func zzProbe(t *testing.T, addr, dialAddr string, cert tls.Certificate, roots *x509.CertPool) zzObs {
	t.Helper()
	proxy, obs, stop := zzProxy(t, cert)
	defer stop()
	u, err := NewUpstream(addr, Opt{DialAddr: dialAddr, Socks5: proxy, TLSConfig: &tls.Config{RootCAs: roots}})
	if err != nil {
		// Rejecting the address at creation would be a correct outcome.
		t.Skipf("%s dial_addr=%s rejected at creation (acceptable): %v", addr, dialAddr, err)
	}
	defer u.Close()
	q := new(dns.Msg)
	q.SetQuestion("example.com.", dns.TypeA)
	qb, _ := q.Pack()
	ctx, cancel := context.WithTimeout(context.Background(), 3*time.Second)
	defer cancel()
	go u.ExchangeContext(ctx, qb)
	select {
	case o := <-obs:
		return o
	case <-ctx.Done():
		t.Fatalf("%s: no connection reached the proxy", addr)
		return zzObs{}
	}
}

// The user wrote a non-default port in the upstream URL and a dial_addr that only
// replaces the host (IP or host name, no port). The connection must go to the
// dial_addr host on the port the user wrote; the TLS server name stays the URL host.
func TestZZAudit_DialAddrWithoutPort_KeepsURLPort(t *testing.T) {
	for _, tc := range []struct{ name, addr, dialAddr, wantDst, wantSNI string }{
		// controls: same URLs, dial_addr carrying an explicit port / no dial_addr.
		{"control_no_dial_addr", "tls://dns.example:8853", "", "(domain)dns.example:8853", "dns.example"},
		{"control_dial_addr_with_port", "tls://dns.example:8853", "198.51.100.7:99", "198.51.100.7:99", "dns.example"},
		{"control_url_without_port", "tls://dns.example", "198.51.100.7", "198.51.100.7:853", "dns.example"},

		{"tls_ip4", "tls://dns.example:8853", "198.51.100.7", "198.51.100.7:8853", "dns.example"},
		{"tls_pipeline_ip6", "tls+pipeline://dns.example:8853", "2001:db8::7", "[2001:db8::7]:8853", "dns.example"},
		{"tls_host", "tls://dns.example:8853", "dial.example", "(domain)dial.example:8853", "dns.example"},
		{"tls_ip_url", "tls://[2001:db8::53]:8853", "198.51.100.7", "198.51.100.7:8853", ""},
		{"https_ip4", "https://dns.example:8443/dns-query", "198.51.100.7", "198.51.100.7:8443", "dns.example"},
		{"tcp_ip4", "tcp://192.0.2.1:5353", "198.51.100.7", "198.51.100.7:5353", ""},
		{"tcp_pipeline_ip6", "tcp+pipeline://192.0.2.1:5353", "2001:db8::7", "[2001:db8::7]:5353", ""},
	} {
		t.Run(tc.name, func(t *testing.T) {
			cert, roots := zzSelfSigned(t, []net.IP{net.ParseIP("2001:db8::53")}, []string{"dns.example"})
			o := zzProbe(t, tc.addr, tc.dialAddr, cert, roots)
			if o.dst != tc.wantDst {
				t.Errorf("addr=%s dial_addr=%s: connected to %s, want %s", tc.addr, tc.dialAddr, o.dst, tc.wantDst)
			}
			if o.gotHello && o.sni != tc.wantSNI {
				t.Errorf("addr=%s dial_addr=%s: SNI %q, want %q", tc.addr, tc.dialAddr, o.sni, tc.wantSNI)
			}
		})
	}
}

// Same for the UDP based transports, observed on loopback sockets: the URL says
// port P (a free port picked by the harness), dial_addr is "127.0.0.1" without port.
func TestZZAudit_DialAddrWithoutPort_KeepsURLPort_UDP(t *testing.T) {
	pc, err := net.ListenPacket("udp", "127.0.0.1:0")
	if err != nil {
		t.Fatal(err)
	}
	defer pc.Close()
	port := strconv.Itoa(pc.LocalAddr().(*net.UDPAddr).Port)
	got := make(chan struct{}, 64)
	go func() {
		b := make([]byte, 2048)
		for {
			if _, _, err := pc.ReadFrom(b); err != nil {
				return
			}
			got <- struct{}{}
		}
	}()

	q := new(dns.Msg)
	q.SetQuestion("example.com.", dns.TypeA)
	qb, _ := q.Pack()

	for _, tc := range []struct{ name, addr, dialAddr string }{
		{"control_udp", "udp://127.0.0.1:" + port, ""},
		{"control_udp_dial_port", "udp://192.0.2.1:" + port, "127.0.0.1:" + port},
		{"udp", "udp://192.0.2.1:" + port, "127.0.0.1"},
		{"quic", "quic://dns.example:" + port, "127.0.0.1"},
		{"h3", "h3://dns.example:" + port + "/dns-query", "127.0.0.1"},
	} {
		t.Run(tc.name, func(t *testing.T) {
			for len(got) > 0 {
				<-got
			}
			u, err := NewUpstream(tc.addr, Opt{DialAddr: tc.dialAddr})
			if err != nil {
				t.Skipf("rejected at creation (acceptable): %v", err)
			}
			defer u.Close()
			ctx, cancel := context.WithTimeout(context.Background(), time.Second)
			defer cancel()
			go u.ExchangeContext(ctx, qb)
			select {
			case <-got:
			case <-ctx.Done():
				t.Errorf("addr=%s dial_addr=%s: no datagram arrived at 127.0.0.1:%s (the port written in the URL)", tc.addr, tc.dialAddr, port)
			}
		})
	}
}
