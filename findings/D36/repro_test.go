package tcp_server

import (
	"context"
	"crypto/ecdsa"
	"crypto/elliptic"
	"crypto/rand"
	"crypto/tls"
	"crypto/x509"
	"crypto/x509/pkix"
	"encoding/base64"
	"encoding/pem"
	"io"
	"math/big"
	"net"
	"net/http"
	"os"
	"path/filepath"
	"strings"
	"testing"
	"time"

	"github.com/IrineSistiana/mosdns/v5/coremain"
	"github.com/IrineSistiana/mosdns/v5/pkg/query_context"
	"github.com/miekg/dns"
)

type auditEcho struct{}

func (auditEcho) Exec(_ context.Context, qCtx *query_context.Context) error {
	r := new(dns.Msg)
	r.SetReply(qCtx.Q())
	qCtx.SetResponse(r)
	return nil
}

func auditCert(t *testing.T) (certFile, keyFile string) {
	t.Helper()
	key, err := ecdsa.GenerateKey(elliptic.P256(), rand.Reader)
	if err != nil {
		t.Fatal(err)
	}
	tmpl := &x509.Certificate{
		SerialNumber: big.NewInt(1),
		Subject:      pkix.Name{CommonName: "localhost"},
		NotBefore:    time.Now().Add(-time.Hour),
		NotAfter:     time.Now().Add(time.Hour),
		IPAddresses:  []net.IP{net.IPv4(127, 0, 0, 1)},
		DNSNames:     []string{"localhost"},
	}
	der, err := x509.CreateCertificate(rand.Reader, tmpl, tmpl, &key.PublicKey, key)
	if err != nil {
		t.Fatal(err)
	}
	kb, err := x509.MarshalECPrivateKey(key)
	if err != nil {
		t.Fatal(err)
	}
	dir := t.TempDir()
	certFile, keyFile = filepath.Join(dir, "c.pem"), filepath.Join(dir, "k.pem")
	if err := os.WriteFile(certFile, pem.EncodeToMemory(&pem.Block{Type: "CERTIFICATE", Bytes: der}), 0600); err != nil {
		t.Fatal(err)
	}
	if err := os.WriteFile(keyFile, pem.EncodeToMemory(&pem.Block{Type: "EC PRIVATE KEY", Bytes: kb}), 0600); err != nil {
		t.Fatal(err)
	}
	return
}

func auditLongName(n int) string {
	var labels []string
	left := n - 1
	for left > 0 {
		l := 63
		if left-1 < l {
			l = left - 1
		}
		labels = append(labels, strings.Repeat("a", l))
		left -= l + 1
	}
	return strings.Join(labels, ".") + "."
}

// A DoH (RFC 8484) GET over HTTP/2 to the real http_server plugin. The query is
// well-formed: one question (255-octet name), one additional record: an OPT
// with a cookie and RFC 8467 block padding (query padded to 384 bytes).
func TestAuditDoHGetOverHTTP2LongQuery(t *testing.T) {
	ps := map[string]any{"entry": auditEcho{}}
	m := coremain.NewTestMosdnsWithPlugins(ps)

	// find a free port
	l, err := net.Listen("tcp", "127.0.0.1:0")
	if err != nil {
		t.Fatal(err)
	}
	addr := l.Addr().String()
	l.Close()

	cert, key := auditCert(t)
	args := &Args{Listen: addr, Cert: cert, Key: key}
	args.Entries = append(args.Entries, struct {
		Exec string `yaml:"exec"`
		Path string `yaml:"path"`
	}{Exec: "entry", Path: "/dns-query"})
	args.init()
	s, err := StartServer(coremain.NewBP("http", m), args)
	if err != nil {
		t.Fatal(err)
	}
	defer s.Close()

	client := &http.Client{
		Timeout: 5 * time.Second,
		Transport: &http.Transport{
			TLSClientConfig:   &tls.Config{InsecureSkipVerify: true},
			ForceAttemptHTTP2: true,
		},
	}

	ask := func(t *testing.T, q *dns.Msg) {
		wire, err := q.Pack()
		if err != nil {
			t.Fatal(err)
		}
		req, err := http.NewRequest(http.MethodGet, "https://"+addr+"/dns-query?dns="+base64.RawURLEncoding.EncodeToString(wire), nil)
		if err != nil {
			t.Fatal(err)
		}
		req.Header.Set("Accept", "application/dns-message")
		resp, err := client.Do(req)
		if err != nil {
			// "http2: request header list larger than peer's advertised limit":
			// the server announced SETTINGS_MAX_HEADER_LIST_SIZE = 832 and would
			// answer 431 to a client that ignores the announcement.
			t.Fatalf("well-formed %d byte query cannot be asked with GET over HTTP/2: %v", len(wire), strings.Replace(err.Error(), req.URL.RawQuery, "dns=...", 1))
		}
		defer resp.Body.Close()
		body, _ := io.ReadAll(resp.Body)
		t.Logf("query is %d bytes, %s, status %s", len(wire), resp.Proto, resp.Status)
		if resp.StatusCode != 200 {
			t.Fatalf("well-formed query got no DNS reply: HTTP %s", resp.Status)
		}
		r := new(dns.Msg)
		if err := r.Unpack(body); err != nil {
			t.Fatal(err)
		}
		if r.Id != q.Id || len(r.Question) != 1 || r.Question[0] != q.Question[0] || !r.Response || !r.RecursionAvailable {
			t.Fatalf("bad reply %v", r)
		}
	}

	t.Run("short name (control)", func(t *testing.T) {
		q := new(dns.Msg)
		q.SetQuestion("example.com.", dns.TypeA)
		q.SetEdns0(1232, false)
		ask(t, q)
	})
	t.Run("255-octet name, OPT with cookie, padded to 384", func(t *testing.T) {
		q := new(dns.Msg)
		q.SetQuestion(auditLongName(255), dns.TypeA)
		q.Id = 0 // RFC 8484 4.1
		q.SetEdns0(1232, false)
		opt := q.IsEdns0()
		opt.Option = append(opt.Option, &dns.EDNS0_COOKIE{Code: dns.EDNS0COOKIE, Cookie: "0123456789abcdef"})
		pad := &dns.EDNS0_PADDING{}
		opt.Option = append(opt.Option, pad)
		pad.Padding = make([]byte, 384-q.Len())
		ask(t, q)
	})
}
