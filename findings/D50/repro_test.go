package fallback

import (
	"context"
	"errors"
	"fmt"
	"sync"
	"sync/atomic"
	"testing"
	"time"

	"github.com/IrineSistiana/mosdns/v5/pkg/query_context"
	"github.com/IrineSistiana/mosdns/v5/plugin/executable/sequence"
	"github.com/miekg/dns"
	"go.uber.org/zap"
)

type outcome int

const (
	oAnswer outcome = iota
	oNone
	oError
)

func (o outcome) String() string { return [...]string{"answer", "none", "error"}[o] }

type worker struct {
	out     outcome
	delay   time.Duration
	tag     string
	started atomic.Int32
	// ignoreCtx: the worker does not look at its context while it works
	// (it still finishes after delay).
	ignoreCtx bool
}

func (w *worker) Exec(ctx context.Context, qCtx *query_context.Context) error {
	w.started.Add(1)
	if w.delay > 0 && w.ignoreCtx {
		time.Sleep(w.delay)
	} else if w.delay > 0 {
		t := time.NewTimer(w.delay)
		defer t.Stop()
		select {
		case <-t.C:
		case <-ctx.Done():
			return context.Cause(ctx)
		}
	}
	switch w.out {
	case oAnswer:
		r := new(dns.Msg)
		r.SetReply(qCtx.Q())
		r.Answer = append(r.Answer, &dns.TXT{Hdr: dns.RR_Header{Name: qCtx.QQuestion().Name, Rrtype: dns.TypeTXT, Class: dns.ClassINET, Ttl: 1}, Txt: []string{w.tag}})
		qCtx.SetResponse(r)
		return nil
	case oNone:
		return nil
	default:
		return errors.New("boom " + w.tag)
	}
}

var _ sequence.Executable = (*worker)(nil)

func newQ() *query_context.Context {
	q := new(dns.Msg)
	q.SetQuestion("example.org.", dns.TypeA)
	return query_context.NewContext(q)
}

func who(qCtx *query_context.Context) string {
	r := qCtx.R()
	if r == nil {
		return ""
	}
	return r.Answer[0].(*dns.TXT).Txt[0]
}

// Reference model matrix.
func TestAuditMatrix(t *testing.T) {
	const T = 200 * time.Millisecond
	early, late := 20*time.Millisecond, T+150*time.Millisecond
	var wg sync.WaitGroup
	for _, standby := range []bool{false, true} {
		for _, po := range []outcome{oAnswer, oNone, oError} {
			for _, pd := range []time.Duration{early, late} {
				for _, so := range []outcome{oAnswer, oNone, oError} {
					for _, sd := range []time.Duration{early, late, 60 * time.Millisecond} {
						standby, po, pd, so, sd := standby, po, pd, so, sd
						wg.Add(1)
						go func() {
							defer wg.Done()
							name := fmt.Sprintf("standby=%v P=%v@%v S=%v@%v", standby, po, pd, so, sd)
							p := &worker{out: po, delay: pd, tag: "P"}
							s := &worker{out: so, delay: sd, tag: "S"}
							f := &fallback{logger: zap.NewNop(), primary: p, secondary: s, fastFallbackDuration: T, alwaysStandby: standby}
							qCtx := newQ()
							ctx, cancel := context.WithTimeout(context.Background(), 3*time.Second)
							defer cancel()
							start := time.Now()
							err := f.doFallback(ctx, qCtx)
							el := time.Since(start)
							got := who(qCtx)
							time.Sleep(late + 300*time.Millisecond) // let workers finish
							sStarted := s.started.Load() > 0

							// model
							var want string
							var wantErr bool
							var wantSStart bool
							// secondary start time
							sStart := time.Duration(0)
							if !standby {
								if po == oAnswer && pd < T {
									sStart = -1
								} else if pd < T {
									sStart = pd
								} else {
									sStart = T
								}
							}
							wantSStart = sStart >= 0
							pAns := time.Duration(-1)
							if po == oAnswer {
								pAns = pd
							}
							sAns := time.Duration(-1)
							if wantSStart && so == oAnswer {
								sAns = sStart + sd
								// release time
								rel := T
								if po != oAnswer && pd < T {
									rel = pd
								}
								if standby && sAns < rel {
									sAns = rel
								}
							}
							switch {
							case pAns >= 0 && pAns < T:
								want = "P"
							case pAns >= 0 && (sAns < 0 || pAns < sAns):
								want = "P"
							case sAns >= 0:
								want = "S"
							default:
								wantErr = true
							}
							if pAns >= T && sAns >= 0 && (pAns-sAns) < 40*time.Millisecond && (sAns-pAns) < 40*time.Millisecond {
								// a tie after the threshold: either answer is right.
								if err != nil || (got != "P" && got != "S") {
									t.Errorf("%s: tie, got %q err=%v", name, got, err)
								}
							} else if wantErr {
								if !errors.Is(err, ErrFailed) {
									t.Errorf("%s: want ErrFailed, got err=%v resp=%q", name, err, got)
								}
							} else if err != nil || got != want {
								t.Errorf("%s: want %q got %q err=%v (elapsed %v)", name, want, got, err, el)
							}
							if sStarted != wantSStart {
								t.Errorf("%s: secondary started=%v want %v", name, sStarted, wantSStart)
							}
						}()
					}
				}
			}
		}
	}
	wg.Wait()
}

// caller deadline shorter than the threshold, always_standby: the secondary's
// worker context has the same deadline and releases its answer at that instant.
func TestAuditDeadlineBeforeThreshold(t *testing.T) {
	const N = 4000
	var secWins, ctxErr, other atomic.Int32
	var wg sync.WaitGroup
	sem := make(chan struct{}, 64)
	for i := 0; i < N; i++ {
		wg.Add(1)
		sem <- struct{}{}
		go func() {
			defer wg.Done()
			defer func() { <-sem }()
			p := &worker{out: oAnswer, delay: 200 * time.Millisecond, tag: "P", ignoreCtx: true}
			s := &worker{out: oAnswer, delay: 0, tag: "S"}
			f := &fallback{logger: zap.NewNop(), primary: p, secondary: s, fastFallbackDuration: 500 * time.Millisecond, alwaysStandby: true}
			qCtx := newQ()
			ctx, cancel := context.WithTimeout(context.Background(), 20*time.Millisecond)
			defer cancel()
			err := f.doFallback(ctx, qCtx)
			switch {
			case err == nil && who(qCtx) == "S":
				secWins.Add(1)
			case errors.Is(err, context.DeadlineExceeded):
				ctxErr.Add(1)
			default:
				other.Add(1)
			}
		}()
	}
	wg.Wait()
	t.Logf("secondary answer returned %d, ctx error %d, other %d", secWins.Load(), ctxErr.Load(), other.Load())
	if secWins.Load() > 0 {
		t.Errorf("secondary answer used %d/%d times although the primary neither failed nor exceeded the threshold", secWins.Load(), N)
	}
}

// long history on the shared timer pool: calls whose timers fire around the
// moment they are released, interleaved with probe calls whose secondary must
// never start.
func TestAuditTimerPoolHistory(t *testing.T) {
	var wg sync.WaitGroup
	var bad atomic.Int32
	stop := make(chan struct{})
	for g := 0; g < 8; g++ {
		wg.Add(1)
		go func(g int) {
			defer wg.Done()
			for i := 0; ; i++ {
				select {
				case <-stop:
					return
				default:
				}
				d := time.Duration(4500+((i*37+g*11)%1000)) * time.Microsecond
				p := &worker{out: oAnswer, delay: d, tag: "P", ignoreCtx: true}
				s := &worker{out: oAnswer, delay: time.Duration(i%3) * 3 * time.Millisecond, tag: "S", ignoreCtx: true}
				f := &fallback{logger: zap.NewNop(), primary: p, secondary: s, fastFallbackDuration: 5 * time.Millisecond, alwaysStandby: i%2 == 0}
				_ = f.doFallback(context.Background(), newQ())
			}
		}(g)
	}
	for g := 0; g < 8; g++ {
		wg.Add(1)
		go func() {
			defer wg.Done()
			for i := 0; i < 3000; i++ {
				p := &worker{out: oAnswer, delay: 0, tag: "P"}
				s := &worker{out: oAnswer, delay: 0, tag: "S"}
				f := &fallback{logger: zap.NewNop(), primary: p, secondary: s, fastFallbackDuration: 2 * time.Second, alwaysStandby: false}
				qCtx := newQ()
				if err := f.doFallback(context.Background(), qCtx); err != nil || who(qCtx) != "P" {
					bad.Add(1)
				}
				time.Sleep(300 * time.Microsecond)
				if s.started.Load() != 0 {
					bad.Add(1)
				}
			}
		}()
	}
	time.AfterFunc(4*time.Second, func() { close(stop) })
	wg.Wait()
	if bad.Load() != 0 {
		t.Errorf("%d probe calls started the secondary / returned the wrong answer", bad.Load())
	}
}

// The call ends when the caller's context is cancelled, whatever the workers do.
func TestAuditCallerCancel(t *testing.T) {
	for _, standby := range []bool{false, true} {
		p := &worker{out: oAnswer, delay: 2 * time.Second, tag: "P", ignoreCtx: true}
		s := &worker{out: oAnswer, delay: 2 * time.Second, tag: "S", ignoreCtx: true}
		f := &fallback{logger: zap.NewNop(), primary: p, secondary: s, fastFallbackDuration: 20 * time.Millisecond, alwaysStandby: standby}
		ctx, cancel := context.WithCancelCause(context.Background())
		cause := errors.New("client went away")
		time.AfterFunc(100*time.Millisecond, func() { cancel(cause) })
		start := time.Now()
		qCtx := newQ()
		err := f.doFallback(ctx, qCtx)
		if el := time.Since(start); el > 500*time.Millisecond || !errors.Is(err, cause) || qCtx.R() != nil {
			t.Errorf("standby=%v: err=%v elapsed=%v resp=%v", standby, err, el, qCtx.R())
		}
	}
}
