package server_handler

import (
	"context"
	"encoding/binary"
	"io"
	"net"
	"strings"
	"testing"
	"time"

	"github.com/IrineSistiana/mosdns/v5/pkg/dnsutils"
	"github.com/IrineSistiana/mosdns/v5/pkg/pool"
	"github.com/IrineSistiana/mosdns/v5/pkg/query_context"
	"github.com/IrineSistiana/mosdns/v5/pkg/server"
	fastforward "github.com/IrineSistiana/mosdns/v5/plugin/executable/forward"
	"github.com/miekg/dns"
)

// longName returns a fqdn that takes exactly n octets on the wire (n <= 255).
func auditLongName(n int) string {
	// wire length = sum(1+len(label)) + 1
	var labels []string
	left := n - 1
	for left > 0 {
		l := 63
		if left-1 < l {
			l = left - 1
		}
		labels = append(labels, strings.Repeat("a", l))
		left -= l + 1
	}
	return strings.Join(labels, ".") + "."
}

// bigCompressedAnswer builds what a normal (compressing) upstream sends: an
// answer with nRR A records owned by the question name. Its wire size is small
// (16 bytes per record) because every owner name is a compression pointer.
func auditBigAnswer(q *dns.Msg, nRR int) *dns.Msg {
	r := new(dns.Msg)
	r.SetReply(q)
	r.RecursionAvailable = true
	for i := 0; i < nRR; i++ {
		r.Answer = append(r.Answer, &dns.A{
			Hdr: dns.RR_Header{Name: q.Question[0].Name, Rrtype: dns.TypeA, Class: q.Question[0].Qclass, Ttl: 60},
			A:   net.IPv4(10, 0, byte(i>>8), byte(i)).To4(),
		})
	}
	r.Compress = true
	return r
}

// End to end: TCP client -> server.ServeTCP -> EntryHandler -> forward plugin
// -> TCP upstream that echoes the question and sends a compressed answer that
// is far below 65535 bytes.
func TestAuditTCPReplyLostWhenAnswerOnlyFitsCompressed(t *testing.T) {
	for _, tc := range []struct {
		name    string
		qname   string
		records int
	}{
		{"255-octet-name/260-records", auditLongName(255), 260},
		{"61-octet-name/1000-records", "a-long-service-name.some-department.example-corporation.com.", 1000},
	} {
		t.Run(tc.name, func(t *testing.T) {
			// fake upstream
			ul, err := net.Listen("tcp", "127.0.0.1:0")
			if err != nil {
				t.Fatal(err)
			}
			defer ul.Close()
			upstreamWireLen := make(chan int, 16)
			go func() {
				for {
					c, err := ul.Accept()
					if err != nil {
						return
					}
					go func() {
						defer c.Close()
						for {
							q, _, err := dnsutils.ReadMsgFromTCP(c)
							if err != nil {
								return
							}
							r := auditBigAnswer(q, tc.records)
							b, err := r.Pack()
							if err != nil {
								t.Error(err)
								return
							}
							upstreamWireLen <- len(b)
							if _, err := dnsutils.WriteRawMsgToTCP(c, b); err != nil {
								return
							}
						}
					}()
				}
			}()

			f, err := fastforward.NewForward(&fastforward.Args{
				Upstreams: []fastforward.UpstreamConfig{{Addr: "tcp://" + ul.Addr().String()}},
			}, fastforward.Opts{})
			if err != nil {
				t.Fatal(err)
			}
			defer f.Close()

			h := NewEntryHandler(EntryHandlerOpts{Entry: f})
			sl, err := net.Listen("tcp", "127.0.0.1:0")
			if err != nil {
				t.Fatal(err)
			}
			defer sl.Close()
			go server.ServeTCP(sl, h, server.TCPServerOpts{})

			c, err := net.Dial("tcp", sl.Addr().String())
			if err != nil {
				t.Fatal(err)
			}
			defer c.Close()
			c.SetDeadline(time.Now().Add(5 * time.Second))

			q := new(dns.Msg)
			q.SetQuestion(tc.qname, dns.TypeA)
			q.Id = 0x1234
			if _, err := dnsutils.WriteMsgToTCP(c, q); err != nil {
				t.Fatal(err)
			}

			hdr := make([]byte, 2)
			_, err = io.ReadFull(c, hdr)
			select {
			case l := <-upstreamWireLen:
				t.Logf("upstream answered with %d records in %d bytes", tc.records, l)
			case <-time.After(time.Second):
				t.Log("upstream was never asked")
			}
			if err != nil {
				t.Fatalf("valid query got no reply over TCP (server closed the connection): %v", err)
			}
			body := make([]byte, binary.BigEndian.Uint16(hdr))
			if _, err := io.ReadFull(c, body); err != nil {
				t.Fatal(err)
			}
			r := new(dns.Msg)
			if err := r.Unpack(body); err != nil {
				t.Fatal(err)
			}
			if r.Id != q.Id || len(r.Question) != 1 || r.Question[0] != q.Question[0] || !r.Response || !r.RecursionAvailable {
				t.Fatalf("bad reply: %v", r)
			}
		})
	}
}

// Same thing at the Handle level, no sockets: the plugin outcome is the
// unpacked upstream answer (dns.Msg.Unpack leaves Compress == false).
func TestAuditHandleTCPAnswerOnlyFitsCompressed(t *testing.T) {
	q := new(dns.Msg)
	q.SetQuestion(auditLongName(255), dns.TypeA)
	q.Id = 0x4321
	wire, err := auditBigAnswer(q, 260).Pack()
	if err != nil {
		t.Fatal(err)
	}
	t.Logf("plugin answer is %d bytes on the wire", len(wire))

	entry := execFunc(func(ctx context.Context, qCtx *query_context.Context) error {
		r := new(dns.Msg)
		if err := r.Unpack(wire); err != nil {
			return err
		}
		qCtx.SetResponse(r)
		return nil
	})
	h := NewEntryHandler(EntryHandlerOpts{Entry: entry})
	p := h.Handle(context.Background(), q.Copy(), server.QueryMeta{}, pool.PackTCPBuffer)
	if p == nil {
		t.Fatal("Handle returned no reply for a valid query whose answer fits 65535 bytes")
	}
	pool.ReleaseBuf(p)
}

type execFunc func(ctx context.Context, qCtx *query_context.Context) error

func (f execFunc) Exec(ctx context.Context, qCtx *query_context.Context) error { return f(ctx, qCtx) }
