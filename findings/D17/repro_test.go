package domain_set

import (
	"os"
	"path/filepath"
	"testing"
)

// A "domain:" rule for the root (".", the form the package's own
// TestDomainMatcher calls "root match") describes every name. A domain set
// whose only rule is that one must therefore match every name.
func TestZZAudit_RootOnlyRuleSetMatches(t *testing.T) {
	names := []string{"example.com.", "example.com", "a.b.c.", "COM."}

	for _, exp := range []string{"domain:.", "."} {
		ds, err := NewDomainSet(nil, &Args{Exps: []string{exp}})
		if err != nil {
			t.Fatal(err)
		}
		m := ds.GetDomainMatcher()
		for _, n := range names {
			if _, ok := m.Match(n); !ok {
				t.Errorf("domain set with the single rule %q does not match %q", exp, n)
			}
		}
	}

	// Same through a file.
	f := filepath.Join(t.TempDir(), "list.txt")
	if err := os.WriteFile(f, []byte("# everything\n.\n"), 0o600); err != nil {
		t.Fatal(err)
	}
	ds, err := NewDomainSet(nil, &Args{Files: []string{f}})
	if err != nil {
		t.Fatal(err)
	}
	for _, n := range names {
		if _, ok := ds.GetDomainMatcher().Match(n); !ok {
			t.Errorf("domain set loaded from a file with the single rule \".\" does not match %q", n)
		}
	}

	// Control: the very same rule works as soon as any unrelated rule is
	// present, which shows the root rule is meant to match.
	ds, err = NewDomainSet(nil, &Args{Exps: []string{"domain:.", "full:unrelated.invalid"}})
	if err != nil {
		t.Fatal(err)
	}
	for _, n := range names {
		if _, ok := ds.GetDomainMatcher().Match(n); !ok {
			t.Fatalf("control failed: %q", n)
		}
	}
}
