package server_handler

import (
	"context"
	"strings"
	"testing"

	"github.com/IrineSistiana/mosdns/v5/pkg/pool"
	"github.com/IrineSistiana/mosdns/v5/pkg/query_context"
	"github.com/IrineSistiana/mosdns/v5/pkg/server"
	"github.com/IrineSistiana/mosdns/v5/plugin/executable/sequence"
	"github.com/miekg/dns"
)

// The upstream's answer: n TXT records, each one string of 240 bytes of
// UTF-8 text (80 x U+4E2D). It went over the wire (Pack + Unpack), as in forward.
func utf8TxtAnswer(t *testing.T, q *dns.Msg, n int) (*dns.Msg, int) {
	r := new(dns.Msg)
	r.SetReply(q)
	for i := 0; i < n; i++ {
		r.Answer = append(r.Answer, &dns.TXT{
			Hdr: dns.RR_Header{Name: q.Question[0].Name, Rrtype: dns.TypeTXT, Class: dns.ClassINET, Ttl: 300},
			Txt: []string{strings.Repeat(`\228\184\173`, 80)},
		})
	}
	r.Compress = true
	w, err := r.Pack()
	if err != nil {
		t.Fatal(err)
	}
	m := new(dns.Msg)
	if err := m.Unpack(w); err != nil {
		t.Fatal(err)
	}
	return m, len(w)
}

func TestAuditStreamTxt(t *testing.T) {
	for _, n := range []int{10, 60, 70, 100, 250} {
		q := new(dns.Msg)
		q.SetQuestion("txt.example.org.", dns.TypeTXT)
		var wireLen int
		h := NewEntryHandler(EntryHandlerOpts{Entry: sequence.ExecutableFunc(func(ctx context.Context, qCtx *query_context.Context) error {
			var r *dns.Msg
			r, wireLen = utf8TxtAnswer(t, qCtx.Q(), n)
			qCtx.SetResponse(r)
			return nil
		})})
		p := h.Handle(context.Background(), q, server.QueryMeta{}, pool.PackTCPBuffer)
		if p == nil {
			t.Fatal("no reply")
		}
		r := new(dns.Msg)
		if err := r.Unpack((*p)[2:]); err != nil {
			t.Fatal(err)
		}
		t.Logf("upstream answer: %d records, %d bytes on the wire; tcp reply: %d records, %d bytes, TC=%v", n, wireLen, len(r.Answer), len(*p)-2, r.Truncated)
		if len(r.Answer) != n || r.Truncated {
			t.Errorf("answer of %d bytes (fits a stream) was cut to %d of %d records, TC=%v", wireLen, len(r.Answer), n, r.Truncated)
		}
	}
}

// Same cause over UDP: a 0.8 KB answer for a client that accepts 1232 bytes
// comes back empty with TC.
func TestAuditUDPTxt(t *testing.T) {
	q := new(dns.Msg)
	q.SetQuestion("txt.example.org.", dns.TypeTXT)
	q.SetEdns0(1232, false)
	var wireLen int
	h := NewEntryHandler(EntryHandlerOpts{Entry: sequence.ExecutableFunc(func(ctx context.Context, qCtx *query_context.Context) error {
		var r *dns.Msg
		r, wireLen = utf8TxtAnswer(t, qCtx.Q(), 3)
		qCtx.SetResponse(r)
		return nil
	})})
	p := h.Handle(context.Background(), q, server.QueryMeta{FromUDP: true}, pool.PackBuffer)
	if p == nil {
		t.Fatal("no reply")
	}
	r := new(dns.Msg)
	if err := r.Unpack(*p); err != nil {
		t.Fatal(err)
	}
	t.Logf("upstream answer: 3 records, %d bytes on the wire; udp reply: %d records, %d bytes, TC=%v", wireLen, len(r.Answer), len(*p), r.Truncated)
	if len(r.Answer) != 3 || r.Truncated {
		t.Errorf("answer of %d bytes (client accepts 1232) was cut to %d of 3 records, TC=%v", wireLen, len(r.Answer), r.Truncated)
	}
}
