package cache

import (
	"bytes"
	"fmt"
	"strings"
	"testing"
	"time"

	"github.com/miekg/dns"
)

// D10: an intact dump of a cache whose answers are large (about 9 KiB each) cannot be loaded again:
// the writer puts 128 entries into one block regardless of their size, the reader refuses blocks over 1 MiB.
func Test_D10_DumpOfLargeAnswersReloads(t *testing.T) {
	c := NewCache(&Args{Size: 4096}, Opts{})
	defer c.Close()
	now := time.Now()
	n := 300
	for i := 0; i < n; i++ {
		m := new(dns.Msg)
		name := fmt.Sprintf("big-%03d.example.", i)
		m.SetQuestion(name, dns.TypeTXT)
		m.Response = true
		for j := 0; j < 40; j++ {
			m.Answer = append(m.Answer, &dns.TXT{
				Hdr: dns.RR_Header{Name: name, Rrtype: dns.TypeTXT, Class: dns.ClassINET, Ttl: 3600},
				Txt: []string{strings.Repeat("x", 230)},
			})
		}
		q := new(dns.Msg)
		q.SetQuestion(name, dns.TypeTXT)
		c.backend.Store(key(getMsgKey(q)), &item{resp: m, storedTime: now, expirationTime: now.Add(time.Hour)}, now.Add(time.Hour))
	}
	buf := new(bytes.Buffer)
	w, err := c.writeDump(buf)
	if err != nil || w != n {
		t.Fatalf("writeDump: %d entries, err %v", w, err)
	}
	c2 := NewCache(&Args{Size: 4096}, Opts{})
	defer c2.Close()
	r, err := c2.readDump(bytes.NewReader(buf.Bytes()))
	if err != nil {
		t.Fatalf("an intact dump does not load: %v (read %d of %d)", err, r, n)
	}
	if c2.backend.Len() != n {
		t.Fatalf("reloaded %d of %d entries", c2.backend.Len(), n)
	}
}
