package netlist

import (
	"net/netip"
	"strings"
	"testing"
)

// Finding 1: an IPv6 address that carries a zone (what the UDP/TCP servers
// hand over as ClientAddr for link-local clients) is never contained, although
// the loader accepts the very same text and stores it as a /128.
func TestAuditZonedAddress(t *testing.T) {
	// (a) rule side accepts the zoned single address ...
	l := NewList()
	if err := LoadFromReader(l, strings.NewReader("fe80::1%eth0\n")); err != nil {
		t.Fatal(err)
	}
	l.Sort()
	if l.Len() != 1 {
		t.Fatalf("len %d", l.Len())
	}
	// ... but the set does not contain the address that was loaded.
	q := netip.MustParseAddr("fe80::1%eth0")
	if !l.Contains(q) {
		t.Errorf("(a) loaded %q, Contains(%v) = false (Contains(%v) = %v)", "fe80::1%eth0", q, q.WithZone(""), l.Contains(q.WithZone("")))
	}

	// (b) a prefix that covers the address bits: fe80::/10 and even ::/0
	for _, p := range []string{"fe80::/10", "::/0", "fe80::1/128"} {
		l := NewList()
		if err := LoadFromText(l, p); err != nil {
			t.Fatal(err)
		}
		l.Sort()
		if !l.Contains(q) {
			t.Errorf("(b) prefix %s: Contains(%v) = false, Contains(%v) = %v", p, q, q.WithZone(""), l.Contains(q.WithZone("")))
		}
	}
}
