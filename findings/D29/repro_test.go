package cache

// Audit C19, finding 3: one cached response that miekg/dns unpacks, packs, but
// cannot unpack again (a record with cut-short rdata) makes readDump abort in
// the middle of an intact dump: load reports an error and every entry that
// follows in the stream is lost.

import (
	"bytes"
	"context"
	"encoding/binary"
	"fmt"
	"net/http"
	"net/http/httptest"
	"testing"

	"github.com/IrineSistiana/mosdns/v5/pkg/query_context"
	"github.com/IrineSistiana/mosdns/v5/plugin/executable/sequence"
	"github.com/miekg/dns"
)

type audit3Upstream struct{ wire []byte }

// Exec plays the role of the forward plugin: it unpacks what the upstream
// server sent and sets it as the response.
func (u audit3Upstream) Exec(_ context.Context, qCtx *query_context.Context) error {
	if qCtx.R() != nil {
		return nil
	}
	r := new(dns.Msg)
	if err := r.Unpack(u.wire); err != nil {
		return err
	}
	r.Id = qCtx.Q().Id
	qCtx.SetResponse(r)
	return nil
}

func audit3Query(t *testing.T, c *Cache, q *dns.Msg, upstreamWire []byte) *dns.Msg {
	t.Helper()
	qCtx := query_context.NewContext(q.Copy())
	var chain []*sequence.ChainNode
	if upstreamWire != nil {
		chain = []*sequence.ChainNode{{E: audit3Upstream{upstreamWire}}}
	}
	if err := c.Exec(context.Background(), qCtx, sequence.NewChainWalker(chain, nil)); err != nil {
		t.Fatal(err)
	}
	return qCtx.R()
}

// soaWireWithShortRdata is a NODATA response whose authority SOA record has
// only the MNAME in its rdata (a 2 byte compression pointer). dns.Msg.Unpack
// accepts records whose rdata ends early; Pack then writes an empty RNAME and
// five zero integers, and that wire form no longer unpacks.
func soaWireWithShortRdata() (q *dns.Msg, wire []byte) {
	q = new(dns.Msg)
	q.SetQuestion("nodata.example.", dns.TypeAAAA)
	buf := make([]byte, 12)
	binary.BigEndian.PutUint16(buf[2:], 0x8180)
	binary.BigEndian.PutUint16(buf[4:], 1)
	binary.BigEndian.PutUint16(buf[8:], 1) // NSCOUNT
	buf = append(buf, 6, 'n', 'o', 'd', 'a', 't', 'a', 7, 'e', 'x', 'a', 'm', 'p', 'l', 'e', 0, 0, 28, 0, 1)
	buf = append(buf, 0xC0, 19, 0, 6, 0, 1, 0, 0, 0, 200, 0, 2, 0xC0, 19) // example. 200 IN SOA example. <end>
	return q, buf
}

func TestAudit3UndecodableEntryAbortsLoad(t *testing.T) {
	c := NewCache(&Args{Size: 4096}, Opts{})
	defer c.Close()

	var qs []*dns.Msg
	for i := 0; i < 300; i++ {
		q := new(dns.Msg)
		q.SetQuestion(fmt.Sprintf("n%d.example.", i), dns.TypeA)
		r := new(dns.Msg)
		r.SetReply(q)
		rr, _ := dns.NewRR(fmt.Sprintf("n%d.example. 3600 IN A 192.0.2.%d", i, i%250))
		r.Answer = append(r.Answer, rr)
		w, err := r.Pack()
		if err != nil {
			t.Fatal(err)
		}
		audit3Query(t, c, q, w)
		qs = append(qs, q)
	}
	bq, bw := soaWireWithShortRdata()
	if r := audit3Query(t, c, bq, bw); r == nil || len(r.Ns) != 1 {
		t.Fatalf("upstream response was not accepted: %v", r)
	}
	if r := audit3Query(t, c, bq, nil); r == nil {
		t.Fatal("the NODATA response was not cached")
	}
	for _, q := range qs {
		if r := audit3Query(t, c, q, nil); r == nil {
			t.Fatal("entry not served by the first cache")
		}
	}

	rec := httptest.NewRecorder()
	c.Api().ServeHTTP(rec, httptest.NewRequest(http.MethodGet, "/dump", nil))
	if rec.Code != http.StatusOK {
		t.Fatalf("GET /dump: %d", rec.Code)
	}
	dump := append([]byte(nil), rec.Body.Bytes()...)

	c2 := NewCache(&Args{Size: 4096}, Opts{})
	defer c2.Close()
	rec = httptest.NewRecorder()
	c2.Api().ServeHTTP(rec, httptest.NewRequest(http.MethodPost, "/load_dump", bytes.NewReader(dump)))
	if rec.Code != http.StatusOK {
		t.Errorf("POST /load_dump of an intact dump: status %d, %s", rec.Code, rec.Body.String())
	}
	miss := 0
	for _, q := range qs {
		if r := audit3Query(t, c2, q, nil); r == nil {
			miss++
		}
	}
	if miss > 0 {
		t.Errorf("%d of %d ordinary entries served by the first cache are not served by the second one", miss, len(qs))
	}
}
