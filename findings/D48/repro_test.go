package server_test

import (
	"bytes"
	"context"
	"encoding/base64"
	"encoding/binary"
	"io"
	"net"
	"net/http"
	"net/http/httptest"
	"testing"
	"time"

	"github.com/IrineSistiana/mosdns/v5/pkg/query_context"
	"github.com/IrineSistiana/mosdns/v5/pkg/server"
	"github.com/IrineSistiana/mosdns/v5/pkg/server_handler"
	"github.com/IrineSistiana/mosdns/v5/plugin/executable/sequence"
	"github.com/miekg/dns"
)

// Property C03: "malformed queries get no DNS reply", quantified over query
// messages with malformed section counts. A message whose header announces
// answer / authority records, or more than one additional record, is answered
// as if it were a well-formed query when those records are not in the message
// (dns.Msg.Unpack silently corrects the counts, the handler only looks at the
// number of unpacked records).

func auditHandler() server.Handler {
	// what "reject 0" / black_hole / hosts do: a local answer built with SetReply.
	entry := sequence.ExecutableFunc(func(_ context.Context, qCtx *query_context.Context) error {
		r := new(dns.Msg)
		r.SetReply(qCtx.Q())
		qCtx.SetResponse(r)
		return nil
	})
	return server_handler.NewEntryHandler(server_handler.EntryHandlerOpts{Entry: entry})
}

type auditCase struct {
	name           string
	opt            bool
	qd, an, ns, ar uint16
	wellFormed     bool
}

var auditCases = []auditCase{
	{"well-formed", false, 1, 0, 0, 0, true},
	{"well-formed+opt", true, 1, 0, 0, 1, true},
	{"ancount=1", false, 1, 1, 0, 0, false},
	{"nscount=1", false, 1, 0, 1, 0, false},
	{"arcount=2", false, 1, 0, 0, 2, false},
	{"arcount=2+opt", true, 1, 0, 0, 2, false},
	{"ancount=1,nscount=3,arcount=7+opt", true, 1, 1, 3, 7, false},
}

func (c auditCase) wire(t *testing.T) []byte {
	q := new(dns.Msg)
	q.SetQuestion("example.com.", dns.TypeA)
	q.Id = 0x1234
	if c.opt {
		q.SetEdns0(1232, false)
	}
	b, err := q.Pack()
	if err != nil {
		t.Fatal(err)
	}
	binary.BigEndian.PutUint16(b[4:], c.qd)
	binary.BigEndian.PutUint16(b[6:], c.an)
	binary.BigEndian.PutUint16(b[8:], c.ns)
	binary.BigEndian.PutUint16(b[10:], c.ar)
	return b
}

func TestAuditMalformedCountsUDP(t *testing.T) {
	pc, err := net.ListenPacket("udp", "127.0.0.1:0")
	if err != nil {
		t.Fatal(err)
	}
	defer pc.Close()
	go server.ServeUDP(pc.(*net.UDPConn), auditHandler(), server.UDPServerOpts{})

	for _, tc := range auditCases {
		c, err := net.Dial("udp", pc.LocalAddr().String())
		if err != nil {
			t.Fatal(err)
		}
		c.Write(tc.wire(t))
		c.SetReadDeadline(time.Now().Add(300 * time.Millisecond))
		buf := make([]byte, 4096)
		n, err := c.Read(buf)
		c.Close()
		switch {
		case tc.wellFormed && err != nil:
			t.Errorf("udp %s: no reply to a well-formed query: %v", tc.name, err)
		case !tc.wellFormed && err == nil:
			t.Errorf("udp %s: malformed query (header counts qd=%d an=%d ns=%d ar=%d) got a %d bytes DNS reply", tc.name, tc.qd, tc.an, tc.ns, tc.ar, n)
		}
	}
}

func TestAuditMalformedCountsTCP(t *testing.T) {
	l, err := net.Listen("tcp", "127.0.0.1:0")
	if err != nil {
		t.Fatal(err)
	}
	defer l.Close()
	go server.ServeTCP(l, auditHandler(), server.TCPServerOpts{})

	for _, tc := range auditCases {
		c, err := net.Dial("tcp", l.Addr().String())
		if err != nil {
			t.Fatal(err)
		}
		w := tc.wire(t)
		b := make([]byte, 2, 2+len(w))
		binary.BigEndian.PutUint16(b, uint16(len(w)))
		c.Write(append(b, w...))
		c.SetReadDeadline(time.Now().Add(300 * time.Millisecond))
		var lb [2]byte
		_, err = io.ReadFull(c, lb[:])
		c.Close()
		switch {
		case tc.wellFormed && err != nil:
			t.Errorf("tcp %s: no reply to a well-formed query: %v", tc.name, err)
		case !tc.wellFormed && err == nil:
			t.Errorf("tcp %s: malformed query got a DNS reply", tc.name)
		}
	}
}

func TestAuditMalformedCountsDoH(t *testing.T) {
	hs := httptest.NewServer(server.NewHttpHandler(auditHandler(), server.HttpHandlerOpts{}))
	defer hs.Close()
	for _, tc := range auditCases {
		for _, method := range []string{"GET", "POST"} {
			var req *http.Request
			if method == "GET" {
				req, _ = http.NewRequest("GET", hs.URL+"/?dns="+base64.RawURLEncoding.EncodeToString(tc.wire(t)), nil)
				req.Header.Set("Accept", "application/dns-message")
			} else {
				req, _ = http.NewRequest("POST", hs.URL+"/", bytes.NewReader(tc.wire(t)))
				req.Header.Set("Content-Type", "application/dns-message")
			}
			resp, err := http.DefaultClient.Do(req)
			if err != nil {
				t.Fatal(err)
			}
			body, _ := io.ReadAll(resp.Body)
			resp.Body.Close()
			gotReply := resp.StatusCode == 200 && len(body) >= 12
			switch {
			case tc.wellFormed && !gotReply:
				t.Errorf("doh %s %s: no reply to a well-formed query: status %d", method, tc.name, resp.StatusCode)
			case !tc.wellFormed && gotReply:
				t.Errorf("doh %s %s: malformed query got a DNS reply", method, tc.name)
			}
		}
	}
}
