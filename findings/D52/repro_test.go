package fallback

// Audit C20, finding 1: the collecting select of doFallback returns the
// caller's context error although the primary's answer was queued (within the
// threshold) before the caller's context ended.
//
// Schedule (legal; forced by holding the calling goroutine where it may be
// descheduled anyway: inside the second qCtx.Copy(), between `go primary` and
// the collecting select):
//   1. doFallback starts the primary worker, then is descheduled.
//   2. the primary answers at once: its answer is queued on respChan, primDone is closed.
//   3. 5 ms later the caller's context is cancelled.
//   4. doFallback resumes, starts the secondary goroutine, enters the select:
//      ctx.Done() and respChan are both ready; about half of the calls return
//      context.Canceled and drop the answer.

import (
	"context"
	"testing"
	"time"

	"github.com/IrineSistiana/mosdns/v5/pkg/query_context"
	"github.com/miekg/dns"
	"go.uber.org/zap"
)

const auditPrivType = 65280

// auditRdata is the rdata of a private RR in the query; dns.Msg.Copy calls
// Copy once per copy of the query, which lets the test hold the goroutine that
// copies the query context.
type auditRdata struct {
	onCopy func()
}

func (d *auditRdata) String() string             { return "" }
func (d *auditRdata) Parse([]string) error       { return nil }
func (d *auditRdata) Pack([]byte) (int, error)   { return 0, nil }
func (d *auditRdata) Unpack([]byte) (int, error) { return 0, nil }
func (d *auditRdata) Len() int                   { return 0 }
func (d *auditRdata) Copy(dst dns.PrivateRdata) error {
	if d.onCopy != nil {
		d.onCopy()
	}
	return nil
}

type auditExec struct {
	tag      string
	returned chan struct{}
}

func (e *auditExec) Exec(_ context.Context, qCtx *query_context.Context) error {
	r := new(dns.Msg)
	r.SetReply(qCtx.Q())
	r.Answer = append(r.Answer, &dns.TXT{
		Hdr: dns.RR_Header{Name: qCtx.QQuestion().Name, Rrtype: dns.TypeTXT, Class: dns.ClassINET, Ttl: 1},
		Txt: []string{e.tag},
	})
	qCtx.SetResponse(r)
	if e.returned != nil {
		close(e.returned)
	}
	return nil
}

func TestAuditAnswerQueuedBeforeCtxEndIsDropped(t *testing.T) {
	dns.PrivateHandle("AUDIT", auditPrivType, func() dns.PrivateRdata { return new(auditRdata) })
	defer dns.PrivateHandleRemove(auditPrivType)

	for _, standby := range []bool{false, true} {
		const trials = 40
		dropped := 0
		for i := 0; i < trials; i++ {
			copies := 0
			inCopy := make(chan struct{})
			release := make(chan struct{})
			rd := &auditRdata{onCopy: func() {
				copies++         // only called from the goroutine of doFallback
				if copies == 2 { // the copy for the secondary, made after `go primary`
					close(inCopy)
					<-release
				}
			}}
			prr := dns.TypeToRR[auditPrivType]().(*dns.PrivateRR)
			prr.Hdr = dns.RR_Header{Name: "example.org.", Rrtype: auditPrivType, Class: dns.ClassINET}
			prr.Data = rd

			q := new(dns.Msg)
			q.SetQuestion("example.org.", dns.TypeA)
			q.Extra = append(q.Extra, prr)
			qCtx := query_context.NewContext(q)

			p := &auditExec{tag: "P", returned: make(chan struct{})}
			s := &auditExec{tag: "S"}
			f := &fallback{
				logger:               zap.NewNop(),
				primary:              p,
				secondary:            s,
				fastFallbackDuration: time.Second, // the primary is far within the threshold
				alwaysStandby:        standby,
			}

			ctx, cancel := context.WithCancel(context.Background())
			done := make(chan error, 1)
			go func() { done <- f.Exec(ctx, qCtx) }()

			<-inCopy                         // doFallback is held after it started the primary
			<-p.returned                     // primary.Exec has returned with an answer
			time.Sleep(5 * time.Millisecond) // its worker queues the answer and closes primDone
			cancel()                         // only now the caller's context ends
			time.Sleep(time.Millisecond)
			close(release) // doFallback runs again

			err := <-done
			if err != nil {
				dropped++
				if qCtx.R() != nil {
					t.Fatalf("error %v with a response", err)
				}
			} else if got := qCtx.R().Answer[0].(*dns.TXT).Txt[0]; got != "P" {
				t.Fatalf("standby=%v: got the answer of %q", standby, got)
			}
		}
		if dropped > 0 {
			t.Errorf("always_standby=%v: %d of %d calls returned the context's error although the primary's answer was queued 5ms before the caller's context ended",
				standby, dropped, trials)
		}
	}
}
