package transport

import (
	"context"
	"encoding/binary"
	"errors"
	"sync"
	"sync/atomic"
	"syscall"
	"testing"
	"time"
)

// Audit C08, finding 1.
//
// Server behaviour (in the property's quantifier): "close right after a reply",
// with a reset: every connection answers its first query, then the connection is
// reset. A fresh connection to the server therefore ALWAYS works for the query it
// was opened for.
//
// a1Conn is an in-memory NetConn with exactly that behaviour:
//   - the first Write (a query) makes the reply (echo) readable,
//   - once the transport has read the whole reply, the reset "arrives": every later
//     Read and Write fails with ECONNRESET.
type a1Conn struct {
	mu        sync.Mutex
	sig       chan struct{} // closed when something is readable or conn is dead
	buf       []byte
	gotQuery  bool
	firstQ    uint64 // number of the first query written to this conn
	replyRead bool   // transport has read the whole reply
	closed    bool
}

func newA1Conn() *a1Conn { return &a1Conn{sig: make(chan struct{})} }

func a1QueryNo(frame []byte) uint64 { return binary.BigEndian.Uint64(frame[2+12:]) }

func (c *a1Conn) Read(p []byte) (int, error) {
	for {
		c.mu.Lock()
		if len(c.buf) > 0 {
			n := copy(p, c.buf)
			c.buf = c.buf[n:]
			if len(c.buf) == 0 {
				c.replyRead = true // reset arrives now
			}
			c.mu.Unlock()
			return n, nil
		}
		if c.replyRead || c.closed {
			c.mu.Unlock()
			return 0, syscall.ECONNRESET
		}
		sig := c.sig
		c.mu.Unlock()
		<-sig
	}
}

func (c *a1Conn) Write(p []byte) (int, error) {
	c.mu.Lock()
	defer c.mu.Unlock()
	if c.replyRead || c.closed {
		return 0, syscall.ECONNRESET
	}
	if c.gotQuery {
		panic("second query on a connection that has not answered the first one")
	}
	c.gotQuery = true
	c.firstQ = a1QueryNo(p)
	c.buf = append([]byte(nil), p...) // echo: length header + message
	close(c.sig)
	c.sig = make(chan struct{})
	return len(p), nil
}

func (c *a1Conn) Close() error {
	c.mu.Lock()
	defer c.mu.Unlock()
	if !c.closed {
		c.closed = true
		close(c.sig)
		c.sig = make(chan struct{})
	}
	return nil
}
func (c *a1Conn) SetDeadline(time.Time) error      { return nil }
func (c *a1Conn) SetReadDeadline(time.Time) error  { return nil }
func (c *a1Conn) SetWriteDeadline(time.Time) error { return nil }

// ReuseConnTransport dials in a helper goroutine, so the link "conn opened for
// query X" is made through firstQ: only the opener can be the first writer of a
// connection here, because nobody cancels a dial in this test.

func TestAuditC08_ReuseFreshConnAnsweredButFailureReported(t *testing.T) {
	var connsMu sync.Mutex
	var all []*a1Conn

	tr := NewReuseConnTransport(ReuseConnOpts{
		DialContext: func(ctx context.Context) (NetConn, error) {
			c := newA1Conn()
			connsMu.Lock()
			all = append(all, c)
			if len(all) > 4096 { // keep memory bounded
				all = all[len(all)-2048:]
			}
			connsMu.Unlock()
			return c, nil
		},
	})
	defer tr.Close()

	const workers = 32
	deadline := time.Now().Add(10 * time.Second)
	var qn uint64
	var total, retriedOK uint64
	var stop atomic.Bool
	type violation struct {
		q   uint64
		err error
	}
	vch := make(chan violation, workers)

	var wg sync.WaitGroup
	for w := 0; w < workers; w++ {
		wg.Add(1)
		go func() {
			defer wg.Done()
			for !stop.Load() && time.Now().Before(deadline) {
				n := atomic.AddUint64(&qn, 1)
				q := make([]byte, 12+8)
				binary.BigEndian.PutUint16(q, uint16(n))
				binary.BigEndian.PutUint64(q[12:], n)
				r, err := tr.ExchangeContext(context.Background(), q)
				atomic.AddUint64(&total, 1)
				if err == nil {
					if binary.BigEndian.Uint64((*r)[12:]) != n {
						t.Errorf("query %d got the reply of another query", n)
						stop.Store(true)
					}
					continue
				}
				// The exchange failed. Was it answered on a connection opened for it?
				connsMu.Lock()
				var own *a1Conn
				for _, c := range all {
					c.mu.Lock()
					if c.gotQuery && c.firstQ == n {
						own = c
					}
					c.mu.Unlock()
				}
				connsMu.Unlock()
				if own != nil {
					own.mu.Lock()
					answered := own.replyRead
					own.mu.Unlock()
					if answered {
						vch <- violation{n, err}
						stop.Store(true)
						return
					}
				}
				if !errors.Is(err, syscall.ECONNRESET) {
					t.Errorf("unexpected error %v", err)
				}
				atomic.AddUint64(&retriedOK, 1)
			}
		}()
	}
	wg.Wait()
	close(vch)
	for v := range vch {
		t.Errorf("after %d exchanges: query %d was sent on a connection opened for it, the server answered it "+
			"and the transport read the whole reply, yet ExchangeContext reported failure: %v",
			atomic.LoadUint64(&total), v.q, v.err)
	}
	t.Logf("exchanges=%d other failures (bounded attempts)=%d", atomic.LoadUint64(&total), atomic.LoadUint64(&retriedOK))
}
