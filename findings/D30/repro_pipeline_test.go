package transport

import (
	"context"
	"encoding/binary"
	"errors"
	"sync"
	"sync/atomic"
	"syscall"
	"testing"
	"time"
)

// a2Conn: in-memory NetConn (TCP framing) for the pipeline transport.
// The server answers only the query that carries marker 'A' and swallows all other
// queries; as soon as the transport has read the whole reply, the connection is
// reset: every later Read and Write fails with ECONNRESET.
type a2Conn struct {
	mu        sync.Mutex
	sig       chan struct{}
	buf       []byte
	replyRead bool
	closed    bool
	writesA   int
}

func newA2Conn() *a2Conn { return &a2Conn{sig: make(chan struct{})} }

func (c *a2Conn) Read(p []byte) (int, error) {
	for {
		c.mu.Lock()
		if len(c.buf) > 0 {
			n := copy(p, c.buf)
			c.buf = c.buf[n:]
			if len(c.buf) == 0 {
				c.replyRead = true
			}
			c.mu.Unlock()
			return n, nil
		}
		if c.replyRead || c.closed {
			c.mu.Unlock()
			return 0, syscall.ECONNRESET
		}
		sig := c.sig
		c.mu.Unlock()
		<-sig
	}
}

func (c *a2Conn) Write(p []byte) (int, error) {
	c.mu.Lock()
	defer c.mu.Unlock()
	if c.replyRead || c.closed {
		return 0, syscall.ECONNRESET
	}
	if p[2+12] == 'A' {
		c.writesA++
		c.buf = append([]byte(nil), p...)
		close(c.sig)
		c.sig = make(chan struct{})
	}
	return len(p), nil
}

func (c *a2Conn) Close() error {
	c.mu.Lock()
	defer c.mu.Unlock()
	if !c.closed {
		c.closed = true
		close(c.sig)
		c.sig = make(chan struct{})
	}
	return nil
}
func (c *a2Conn) SetDeadline(time.Time) error      { return nil }
func (c *a2Conn) SetReadDeadline(time.Time) error  { return nil }
func (c *a2Conn) SetWriteDeadline(time.Time) error { return nil }

func TestAuditC08_PipelineFreshConnAnsweredButFailureReported(t *testing.T) {
	deadline := time.Now().Add(10 * time.Second)
	qa := make([]byte, 12+8)
	qa[12] = 'A'
	binary.BigEndian.PutUint16(qa, 0x1234)
	qb := make([]byte, 12+8)
	qb[12] = 'B'

	rounds := 0
	for time.Now().Before(deadline) {
		rounds++
		var dials int32
		fc := newA2Conn()
		tr := NewPipelineTransport(PipelineOpts{
			DialContext: func(ctx context.Context) (DnsConn, error) {
				if atomic.AddInt32(&dials, 1) == 1 { // the connection opened for query A
					return NewDnsConn(TraditionalDnsConnOpts{WithLengthHeader: true}, fc), nil
				}
				return nil, errors.New("no more connections in this round")
			},
		})

		ctx, cancel := context.WithTimeout(context.Background(), 2*time.Second)
		var done atomic.Bool
		var wg sync.WaitGroup
		var errA error
		var respA *[]byte
		// Query A is the first query of the round: the transport is empty, so the
		// connection is opened for it.
		started := make(chan struct{})
		wg.Add(1)
		go func() {
			defer wg.Done()
			close(started)
			respA, errA = tr.ExchangeContext(ctx, qa)
			done.Store(true)
		}()
		<-started
		for tr.connsLen() == 0 { // wait until A has created its connection
		}
		for b := 0; b < 12; b++ {
			wg.Add(1)
			go func() {
				defer wg.Done()
				for !done.Load() {
					tr.ExchangeContext(ctx, qb) // other queries of a concurrent stream
				}
			}()
		}
		wg.Wait()
		cancel()
		tr.Close()

		fc.mu.Lock()
		answered, writesA := fc.replyRead, fc.writesA
		fc.mu.Unlock()
		if errA != nil && answered {
			t.Fatalf("round %d: query A was sent (%d time(s)) on the connection opened for it, the server answered it and the "+
				"transport read the whole reply, yet ExchangeContext reported failure: %v", rounds, writesA, errA)
		}
		if errA == nil && binary.BigEndian.Uint16(*respA) != 0x1234 {
			t.Fatalf("bad reply id")
		}
	}
	t.Logf("no violation in %d rounds", rounds)
}

func (t *PipelineTransport) connsLen() int {
	t.m.Lock()
	defer t.m.Unlock()
	return len(t.conns)
}
