package server_handler

import (
	"context"
	"net"
	"testing"

	"github.com/IrineSistiana/mosdns/v5/coremain"
	"github.com/IrineSistiana/mosdns/v5/pkg/pool"
	"github.com/IrineSistiana/mosdns/v5/pkg/query_context"
	"github.com/IrineSistiana/mosdns/v5/pkg/server"
	"github.com/IrineSistiana/mosdns/v5/plugin/executable/cache"
	"github.com/IrineSistiana/mosdns/v5/plugin/executable/hosts"
	"github.com/IrineSistiana/mosdns/v5/plugin/executable/redirect"
	"github.com/IrineSistiana/mosdns/v5/plugin/executable/sequence"
	_ "github.com/IrineSistiana/mosdns/v5/plugin/matcher/has_resp"
	"github.com/miekg/dns"
)

// auditEchoUpstream stands for forward + an upstream that echoes the question
// and answers A/AAAA queries with one record.
type auditEchoUpstream struct{}

func (auditEchoUpstream) Exec(_ context.Context, qCtx *query_context.Context) error {
	q := qCtx.Q()
	r := new(dns.Msg)
	r.SetReply(q)
	h := dns.RR_Header{Name: q.Question[0].Name, Rrtype: q.Question[0].Qtype, Class: dns.ClassINET, Ttl: 60}
	switch q.Question[0].Qtype {
	case dns.TypeA:
		r.Answer = append(r.Answer, &dns.A{Hdr: h, A: net.IPv4(9, 9, 9, 9).To4()})
	case dns.TypeAAAA:
		r.Answer = append(r.Answer, &dns.AAAA{Hdr: h, AAAA: net.ParseIP("2001:db8::9")})
	}
	qCtx.SetResponse(r)
	return nil
}

func auditAsk(t *testing.T, h *EntryHandler, name string, qtype uint16, id uint16) {
	t.Helper()
	q := new(dns.Msg)
	q.SetQuestion(name, qtype)
	q.Id = id
	want := q.Question[0]
	p := h.Handle(context.Background(), q, server.QueryMeta{FromUDP: true}, pool.PackBuffer)
	if p == nil {
		t.Fatalf("query %s %s: no reply", name, dns.TypeToString[qtype])
	}
	defer pool.ReleaseBuf(p)
	r := new(dns.Msg)
	if err := r.Unpack(*p); err != nil {
		t.Fatal(err)
	}
	if r.Id != id || !r.Response || !r.RecursionAvailable {
		t.Errorf("query %s %s: bad header in reply:\n%v", name, dns.TypeToString[qtype], r)
	}
	if len(r.Question) != 1 || r.Question[0] != want {
		t.Errorf("query %s %s (id %d) got a reply for another question:\n%v", name, dns.TypeToString[qtype], id, r)
	}
}

func auditHandler(t *testing.T, ps map[string]any, chain []sequence.RuleArgs) *EntryHandler {
	t.Helper()
	m := coremain.NewTestMosdnsWithPlugins(ps)
	c := cache.NewCache(&cache.Args{Size: 1024}, cache.Opts{})
	t.Cleanup(func() { c.Close() })
	ps["cache"] = c
	ps["upstream"] = auditEchoUpstream{}
	s, err := sequence.NewSequence(coremain.NewBP("main", m), chain)
	if err != nil {
		t.Fatal(err)
	}
	t.Cleanup(func() { s.Close() })
	return NewEntryHandler(EntryHandlerOpts{Entry: s})
}

// hosts -> redirect -> cache -> (accept if answered) -> upstream.
// "redir.example." is answered by hosts, then redirect rewrites the question
// to "target.example." and the cache stores the answer for "redir.example."
// under the key of "target.example.". A later plain query for
// "target.example." gets a reply whose question is "redir.example.".
func TestAuditRedirectPoisonsCacheWithOtherQname(t *testing.T) {
	ps := make(map[string]any)
	hp, err := hosts.NewHosts(&hosts.Args{Entries: []string{"redir.example 1.1.1.1"}})
	if err != nil {
		t.Fatal(err)
	}
	ps["hosts"] = hp
	rp, err := redirect.NewRedirect(&redirect.Args{Rules: []string{"redir.example target.example"}})
	if err != nil {
		t.Fatal(err)
	}
	ps["redirect"] = rp
	h := auditHandler(t, ps, []sequence.RuleArgs{
		{Exec: "$hosts"},
		{Exec: "$redirect"},
		{Exec: "$cache"},
		{Matches: []string{"has_resp"}, Exec: "accept"},
		{Exec: "$upstream"},
	})
	auditAsk(t, h, "redir.example.", dns.TypeA, 1)
	auditAsk(t, h, "target.example.", dns.TypeA, 2)
}
