package upstream

// Audit C18, finding 1: https://<bare IPv6>/... is accepted, dialled correctly, but the
// TLS server name is derived from a *different* parse of the same string
// (net/url.URL.Hostname(), which treats the last ":group" as a port).

import (
	"context"
	"crypto/ecdsa"
	"crypto/elliptic"
	"crypto/rand"
	"crypto/tls"
	"crypto/x509"
	"crypto/x509/pkix"
	"encoding/binary"
	"io"
	"math/big"
	"net"
	"strconv"
	"testing"
	"time"

	"github.com/miekg/dns"
)

type zzObs struct {
	dst          string // CONNECT destination seen by the socks5 proxy
	sni          string // SNI seen by the TLS listener behind the proxy
	gotHello     bool
	handshakeErr error // server side result of the TLS handshake
}

// zzSelfSigned makes a self-signed (CA) leaf certificate valid for the given IPs / names.
func zzSelfSigned(t testing.TB, ips []net.IP, names []string) (tls.Certificate, *x509.CertPool) {
	key, err := ecdsa.GenerateKey(elliptic.P256(), rand.Reader)
	if err != nil {
		t.Fatal(err)
	}
	tpl := &x509.Certificate{
		SerialNumber:          big.NewInt(1),
		Subject:               pkix.Name{CommonName: "zz audit"},
		NotBefore:             time.Now().Add(-time.Hour),
		NotAfter:              time.Now().Add(time.Hour),
		KeyUsage:              x509.KeyUsageDigitalSignature | x509.KeyUsageCertSign,
		ExtKeyUsage:           []x509.ExtKeyUsage{x509.ExtKeyUsageServerAuth},
		BasicConstraintsValid: true,
		IsCA:                  true,
		IPAddresses:           ips,
		DNSNames:              names,
	}
	der, err := x509.CreateCertificate(rand.Reader, tpl, tpl, &key.PublicKey, key)
	if err != nil {
		t.Fatal(err)
	}
	leaf, err := x509.ParseCertificate(der)
	if err != nil {
		t.Fatal(err)
	}
	pool := x509.NewCertPool()
	pool.AddCert(leaf)
	return tls.Certificate{Certificate: [][]byte{der}, PrivateKey: key, Leaf: leaf}, pool
}

// zzProxy is a minimal SOCKS5 proxy that records the CONNECT destination and then
// plays the TLS server itself (recording SNI and whether the client accepted cert).
func zzProxy(t testing.TB, cert tls.Certificate) (addr string, obs <-chan zzObs, stop func()) {
	l, err := net.Listen("tcp", "127.0.0.1:0")
	if err != nil {
		t.Fatal(err)
	}
	ch := make(chan zzObs, 8)
	go func() {
		for {
			c, err := l.Accept()
			if err != nil {
				return
			}
			go func() {
				defer c.Close()
				c.SetDeadline(time.Now().Add(3 * time.Second))
				hdr := make([]byte, 2)
				if _, err := io.ReadFull(c, hdr); err != nil {
					return
				}
				if _, err := io.ReadFull(c, make([]byte, hdr[1])); err != nil {
					return
				}
				c.Write([]byte{5, 0})
				req := make([]byte, 4)
				if _, err := io.ReadFull(c, req); err != nil {
					return
				}
				var host string
				switch req[3] {
				case 1:
					b := make([]byte, 4)
					io.ReadFull(c, b)
					host = net.IP(b).String()
				case 4:
					b := make([]byte, 16)
					io.ReadFull(c, b)
					host = net.IP(b).String()
				case 3:
					lb := make([]byte, 1)
					io.ReadFull(c, lb)
					b := make([]byte, lb[0])
					io.ReadFull(c, b)
					host = "(domain)" + string(b)
				}
				pb := make([]byte, 2)
				io.ReadFull(c, pb)
				o := zzObs{dst: net.JoinHostPort(host, strconv.Itoa(int(binary.BigEndian.Uint16(pb))))}
				c.Write([]byte{5, 0, 0, 1, 0, 0, 0, 0, 0, 0})
				tc := tls.Server(c, &tls.Config{GetConfigForClient: func(chi *tls.ClientHelloInfo) (*tls.Config, error) {
					o.sni = chi.ServerName
					o.gotHello = true
					return &tls.Config{Certificates: []tls.Certificate{cert}, NextProtos: []string{"h2"}}, nil
				}})
				o.handshakeErr = tc.Handshake()
				ch <- o
			}()
		}
	}()
	return l.Addr().String(), ch, func() { l.Close() }
}

func zzProbe(t *testing.T, addr string, cert tls.Certificate, roots *x509.CertPool) zzObs {
	t.Helper()
	proxy, obs, stop := zzProxy(t, cert)
	defer stop()
	u, err := NewUpstream(addr, Opt{Socks5: proxy, TLSConfig: &tls.Config{RootCAs: roots}})
	if err != nil {
		// Rejecting the address at creation would be a correct outcome.
		t.Skipf("%s rejected at creation (acceptable): %v", addr, err)
	}
	defer u.Close()
	q := new(dns.Msg)
	q.SetQuestion("example.com.", dns.TypeA)
	qb, _ := q.Pack()
	ctx, cancel := context.WithTimeout(context.Background(), 3*time.Second)
	defer cancel()
	go u.ExchangeContext(ctx, qb)
	select {
	case o := <-obs:
		return o
	case <-ctx.Done():
		t.Fatalf("%s: no connection reached the proxy", addr)
		return zzObs{}
	}
}

// The server owns a certificate for exactly the IP the user wrote. The upstream must
// (a) connect to that IP, port 443, (b) use that IP as TLS server name: no SNI
// extension for an IP literal, and the certificate verifies.
func TestZZAudit_HTTPSBareIPv6_ServerName(t *testing.T) {
	for _, tc := range []struct{ name, addr, ip string }{
		{"control_bracketed", "https://[2001:db8::53]/dns-query", "2001:db8::53"},
		{"bare_compressed", "https://2001:db8::53/dns-query", "2001:db8::53"},
		{"bare_loopback", "https://::1/dns-query", "::1"},
		{"bare_full", "https://2001:0db8:0000:0000:0000:0000:0000:0001/dns-query", "2001:db8::1"},
	} {
		t.Run(tc.name, func(t *testing.T) {
			cert, roots := zzSelfSigned(t, []net.IP{net.ParseIP(tc.ip)}, nil)
			o := zzProbe(t, tc.addr, cert, roots)
			if want := net.JoinHostPort(tc.ip, "443"); o.dst != want {
				t.Errorf("connected to %s, want %s", o.dst, want)
			}
			if o.sni != "" {
				t.Errorf("TLS server name is not the URL host %s: ClientHello carries SNI %q", tc.ip, o.sni)
			}
			if o.handshakeErr != nil {
				t.Errorf("client refused a certificate that is valid for the URL host %s: %v", tc.ip, o.handshakeErr)
			}
		})
	}
}

// The user wrote host 2001:db8::1:53. The upstream connects to [2001:db8::1:53]:443
// but authenticates the peer as 2001:db8::1 (a different machine): a certificate that
// is NOT valid for the URL host is accepted.
func TestZZAudit_HTTPSBareIPv6_WrongIdentityAccepted(t *testing.T) {
	for _, tc := range []struct{ name, addr, connectIP, certIP string }{
		{"control_bracketed", "https://[2001:db8::1:53]/dns-query", "2001:db8::1:53", "2001:db8::1"},
		{"bare", "https://2001:db8::1:53/dns-query", "2001:db8::1:53", "2001:db8::1"},
	} {
		t.Run(tc.name, func(t *testing.T) {
			cert, roots := zzSelfSigned(t, []net.IP{net.ParseIP(tc.certIP)}, nil)
			o := zzProbe(t, tc.addr, cert, roots)
			if want := net.JoinHostPort(tc.connectIP, "443"); o.dst != want {
				t.Errorf("connected to %s, want %s", o.dst, want)
			}
			if o.handshakeErr == nil {
				t.Errorf("connected to %s but accepted a certificate that is only valid for %s: server name was not the URL host",
					o.dst, tc.certIP)
			}
		})
	}
}
