package transport

import (
	"context"
	"encoding/binary"
	"io"
	"sync"
	"testing"
	"time"

	"github.com/quic-go/quic-go"
)

// A context whose Done() is only answered after the reply was received: it models a caller
// that is descheduled between starting the stream reader and entering its final select,
// and whose deadline passes (after the reply was read) during that time.
type auditLateCtx struct {
	context.Context
	replyRead <-chan struct{}
	once      sync.Once
	done      chan struct{}
}

func (c *auditLateCtx) Done() <-chan struct{} {
	<-c.replyRead                    // the reply was read from the stream
	time.Sleep(time.Millisecond * 5) // ... and handed to the result channel
	c.once.Do(func() { close(c.done) })
	return c.done // now the deadline passes
}

func (c *auditLateCtx) Err() error {
	select {
	case <-c.done:
		return context.DeadlineExceeded
	default:
		return nil
	}
}

type auditQuicStream struct {
	mu        sync.Mutex
	rbuf      []byte
	hasReply  chan struct{}
	replyRead chan struct{}
	once      sync.Once
}

func (s *auditQuicStream) StreamID() quic.StreamID { return 0 }
func (s *auditQuicStream) Read(p []byte) (int, error) {
	<-s.hasReply
	s.mu.Lock()
	defer s.mu.Unlock()
	if len(s.rbuf) == 0 {
		return 0, io.EOF
	}
	n := copy(p, s.rbuf)
	s.rbuf = s.rbuf[n:]
	if len(s.rbuf) == 0 {
		s.once.Do(func() { close(s.replyRead) })
	}
	return n, nil
}
func (s *auditQuicStream) CancelRead(quic.StreamErrorCode)   {}
func (s *auditQuicStream) SetReadDeadline(time.Time) error   { return nil }
func (s *auditQuicStream) CancelWrite(quic.StreamErrorCode)  {}
func (s *auditQuicStream) Context() context.Context          { return context.Background() }
func (s *auditQuicStream) SetWriteDeadline(time.Time) error  { return nil }
func (s *auditQuicStream) SetDeadline(time.Time) error       { return nil }
func (s *auditQuicStream) Close() error                      { return nil }
func (s *auditQuicStream) Write(p []byte) (int, error) {
	// the server answers at once
	m := p[2:]
	r := make([]byte, 2+len(m))
	binary.BigEndian.PutUint16(r, uint16(len(m)))
	copy(r[2:], m)
	r[4] |= 0x80
	s.mu.Lock()
	s.rbuf = r
	s.mu.Unlock()
	close(s.hasReply)
	return len(p), nil
}

// The reply is completely read from the stream (and queued for the caller) before the
// caller's deadline passes. ExchangeReserved must return it.
func TestAuditDoQReplyBeforeDeadline(t *testing.T) {
	lost := 0
	const n = 40
	for i := 0; i < n; i++ {
		s := &auditQuicStream{hasReply: make(chan struct{}), replyRead: make(chan struct{})}
		ctx := &auditLateCtx{Context: context.Background(), replyRead: s.replyRead, done: make(chan struct{})}
		q := make([]byte, 12+5)
		binary.BigEndian.PutUint16(q, 0x1234)
		r, err := (&quicReservedExchanger{stream: s}).ExchangeReserved(ctx, q)
		if err != nil {
			lost++
			continue
		}
		if binary.BigEndian.Uint16(*r) != 0x1234 {
			t.Fatalf("wrong id")
		}
	}
	if lost > 0 {
		t.Fatalf("%d of %d replies that were read before the caller's deadline were lost (context deadline exceeded)", lost, n)
	}
}
