package transport

import (
	"context"
	"net"
	"sync"
	"testing"
	"time"

	"github.com/miekg/dns"
)

// D13 (a defect of the D11 repair 06bfeff): the reader computed "queries still waiting" from
// queueLen(), which is len(queue)+reservedQuery. A query sent through ReserveNewQuery /
// ExchangeReserved (every pipelined and UDP query) is counted in BOTH while it is in flight, so
// after the only outstanding query was answered the flag stayed true for ever. From then on no
// exchange re-arms the waiting-reply deadline (its CompareAndSwap(false, true) fails): the read
// deadline stays where the reader left it after the previous reply (+10 s), and a query sent
// shortly before that moment loses a reply that arrives well within its own context.
type d13Conn struct {
	net.Conn
	mu   sync.Mutex
	last time.Time
}

func (c *d13Conn) SetReadDeadline(t time.Time) error {
	c.mu.Lock()
	c.last = t
	c.mu.Unlock()
	return c.Conn.SetReadDeadline(t)
}

func (c *d13Conn) lastDeadline() time.Time {
	c.mu.Lock()
	defer c.mu.Unlock()
	return c.last
}

func Test_D13_WaitingFlagAfterReservedExchange(t *testing.T) {
	c1, c2 := net.Pipe()
	defer c1.Close()
	defer c2.Close()
	delay := make(chan time.Duration, 4)
	go func() { // echo server (UDP-style framing), optional delay per reply
		b := make([]byte, 4096)
		for {
			n, err := c2.Read(b)
			if err != nil {
				return
			}
			m := new(dns.Msg)
			if m.Unpack(b[:n]) != nil {
				continue
			}
			m.Response = true
			out, _ := m.Pack()
			select {
			case d := <-delay:
				time.Sleep(d)
			default:
			}
			c2.Write(out)
		}
	}()
	sc := &d13Conn{Conn: c1}
	dc := NewDnsConn(TraditionalDnsConnOpts{IdleTimeout: 5 * time.Minute}, sc)
	defer dc.Close()

	q := new(dns.Msg)
	q.SetQuestion("example.test.", dns.TypeA)
	payload, _ := q.Pack()

	ex := func() {
		t.Helper()
		re, closed := dc.ReserveNewQuery()
		if re == nil || closed {
			t.Fatal("cannot reserve")
		}
		ctx, cancel := context.WithTimeout(context.Background(), 3*time.Second)
		defer cancel()
		if _, err := re.ExchangeReserved(ctx, payload); err != nil {
			t.Fatal(err)
		}
	}
	ex()
	time.Sleep(100 * time.Millisecond) // the exchange returned, nothing is outstanding
	if dc.waitingResp.Load() {
		t.Error("no query is outstanding, but the connection still claims to wait for a reply")
	}

	// second query 600 ms later: its exchange must arm the waiting-reply deadline for itself
	time.Sleep(500 * time.Millisecond)
	delay <- 400 * time.Millisecond
	sent := time.Now()
	done := make(chan struct{})
	go func() { defer close(done); ex() }()
	time.Sleep(150 * time.Millisecond) // query written, reply not yet sent
	if ddl := sc.lastDeadline(); ddl.Before(sent.Add(waitingReplyTimeout - 100*time.Millisecond)) {
		t.Errorf("the read deadline while the second query waits is %v after it was sent, want about %v: it was not re-armed for this query",
			ddl.Sub(sent).Round(10*time.Millisecond), waitingReplyTimeout)
	}
	<-done
}
