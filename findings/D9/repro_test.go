package transport

import (
	"context"
	"net"
	"sync"
	"testing"
	"time"

	"github.com/miekg/dns"
)

// silentConn never delivers a reply. It records the read deadline that is armed and delays the reader's
// first idle-deadline call until the exchange has armed its waiting-reply deadline (a legal schedule:
// the reader goroutine is descheduled right before SetReadDeadline).
type silentConn struct {
	net.Conn
	mu        sync.Mutex
	last      time.Time
	shortSeen chan struct{}
	once      sync.Once
}

func (c *silentConn) SetReadDeadline(t time.Time) error {
	if time.Until(t) > time.Minute { // the idle deadline
		select {
		case <-c.shortSeen:
		case <-time.After(2 * time.Second):
		}
	} else {
		defer c.once.Do(func() { close(c.shortSeen) })
	}
	c.mu.Lock()
	c.last = t
	c.mu.Unlock()
	return c.Conn.SetReadDeadline(t)
}

func Test_D9_SilentServerFirstExchange(t *testing.T) {
	c1, c2 := net.Pipe()
	defer c1.Close()
	defer c2.Close()
	go func() { // swallow queries, never answer
		b := make([]byte, 4096)
		for {
			if _, err := c2.Read(b); err != nil {
				return
			}
		}
	}()
	sc := &silentConn{Conn: c1, shortSeen: make(chan struct{})}
	dc := NewDnsConn(TraditionalDnsConnOpts{WithLengthHeader: true, IdleTimeout: 5 * time.Minute}, sc)
	defer dc.Close()

	q := new(dns.Msg)
	q.SetQuestion("test.", dns.TypeA)
	payload, _ := q.Pack()
	go func() { _, _ = dc.exchange(context.Background(), payload) }()
	time.Sleep(3 * time.Second) // both deadline calls have happened by now
	sc.mu.Lock()
	left := time.Until(sc.last)
	sc.mu.Unlock()
	if left > 15*time.Second {
		t.Fatalf("silent server, unbounded context: the armed read deadline is %v away; the exchange will hang that long instead of ~10s", left.Round(time.Second))
	}
}
