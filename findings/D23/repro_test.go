// Audit C02, finding 4 (scope: the "liveness detection must not kill a healthy
// connection" anchor): with IdleTimeout < waitingReplyTimeout (idle_timeout: 1..9 on a
// pipelined tcp/tls upstream) a query that is still unanswered when ANOTHER reply is read
// is left with the idle deadline only. The healthy connection is closed idleTimeout after
// that other reply and the query fails, although its reply comes well before the caller's
// deadline. The very same query, alone on the connection, is given waitingReplyTimeout
// (10 s) and succeeds (control test).
package transport

import (
	"bytes"
	"context"
	"net"
	"testing"
	"time"

	"github.com/IrineSistiana/mosdns/v5/pkg/dnsutils"
	"github.com/IrineSistiana/mosdns/v5/pkg/pool"
	"github.com/miekg/dns"
)

const (
	auditIdle       = 200 * time.Millisecond
	auditSlowReply  = 500 * time.Millisecond // > idle, far below the caller's deadline
	auditCallerTime = 3 * time.Second
)

func auditQ(t *testing.T, name string) []byte {
	q := new(dns.Msg)
	q.SetQuestion(name, dns.TypeA)
	b, err := q.Pack()
	if err != nil {
		t.Fatal(err)
	}
	return b
}

// server answers every query that contains "slow" after auditSlowReply, everything else
// after 20ms. (real net.Pipe: deadlines work.)
func auditServer(c net.Conn) {
	defer c.Close()
	for {
		m, err := dnsutils.ReadRawMsgFromTCP(c)
		if err != nil {
			return
		}
		d := 20 * time.Millisecond
		if bytes.Contains(*m, []byte("slow")) {
			d = auditSlowReply
		}
		go func() {
			defer pool.ReleaseBuf(m)
			time.Sleep(d)
			(*m)[2] |= 0x80
			_, _ = dnsutils.WriteRawMsgToTCP(c, *m)
		}()
	}
}

// control: the slow query alone. Passes: exchange() arms waitingReplyTimeout.
func Test_Audit_IdleDeadline_Control_LoneSlowQuery(t *testing.T) {
	c1, c2 := net.Pipe()
	go auditServer(c2)
	dc := NewDnsConn(TraditionalDnsConnOpts{WithLengthHeader: true, IdleTimeout: auditIdle}, c1)
	defer dc.Close()
	ctx, cancel := context.WithTimeout(context.Background(), auditCallerTime)
	defer cancel()
	rec, _ := dc.ReserveNewQuery()
	q := auditQ(t, "slow.test.")
	resp, err := rec.ExchangeReserved(ctx, q)
	if err != nil {
		t.Fatalf("lone slow query: %v", err)
	}
	if !bytes.Equal((*resp)[12:], q[12:]) {
		t.Fatal("wrong reply")
	}
}

// the slow query with a fast query next to it on the same connection.
func Test_Audit_IdleDeadline_KillsConnWithUnansweredQuery(t *testing.T) {
	c1, c2 := net.Pipe()
	go auditServer(c2)
	dc := NewDnsConn(TraditionalDnsConnOpts{WithLengthHeader: true, IdleTimeout: auditIdle}, c1)
	defer dc.Close()
	ctx, cancel := context.WithTimeout(context.Background(), auditCallerTime)
	defer cancel()

	type res struct {
		resp *[]byte
		err  error
		took time.Duration
	}
	slowRes := make(chan res, 1)
	slowQ := auditQ(t, "slow.test.")
	recSlow, _ := dc.ReserveNewQuery()
	start := time.Now()
	go func() {
		r, err := recSlow.ExchangeReserved(ctx, slowQ)
		slowRes <- res{r, err, time.Since(start)}
	}()
	time.Sleep(5 * time.Millisecond) // the slow query is on the wire first (not essential)

	recFast, _ := dc.ReserveNewQuery()
	if _, err := recFast.ExchangeReserved(ctx, auditQ(t, "fast.test.")); err != nil {
		t.Fatalf("fast query: %v", err)
	}

	r := <-slowRes
	if r.err != nil {
		t.Fatalf("slow query failed after %v (server answers it after %v, caller allows %v): %v; conn closed=%v",
			r.took.Round(time.Millisecond), auditSlowReply, auditCallerTime, r.err, dc.IsClosed())
	}
	if !bytes.Equal((*r.resp)[12:], slowQ[12:]) {
		t.Fatal("wrong reply")
	}
}
