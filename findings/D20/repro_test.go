package server_handler

import (
	"context"
	"fmt"
	"net/netip"
	"strings"
	"testing"

	"github.com/IrineSistiana/mosdns/v5/coremain"
	"github.com/IrineSistiana/mosdns/v5/pkg/pool"
	"github.com/IrineSistiana/mosdns/v5/pkg/query_context"
	"github.com/IrineSistiana/mosdns/v5/pkg/server"
	"github.com/IrineSistiana/mosdns/v5/plugin/executable/cache"
	"github.com/IrineSistiana/mosdns/v5/plugin/executable/ecs_handler"
	_ "github.com/IrineSistiana/mosdns/v5/plugin/executable/forward_edns0opt"
	"github.com/IrineSistiana/mosdns/v5/plugin/executable/sequence"
	_ "github.com/IrineSistiana/mosdns/v5/plugin/executable/ttl"
	_ "github.com/IrineSistiana/mosdns/v5/plugin/matcher/has_resp"
	"github.com/miekg/dns"
)

// fakeUpstream behaves like plugin/executable/forward: it packs qCtx.Q() to
// wire, lets the "upstream" build a reply from the parsed wire query, packs
// the reply to wire, parses it again and hands it to SetResponse.
type fakeUpstream struct {
	t       *testing.T
	reply   func(q *dns.Msg) *dns.Msg
	gotWire [][]byte // every query the upstream received
}

func (u *fakeUpstream) Exec(_ context.Context, qCtx *query_context.Context) error {
	wire, err := pool.PackBuffer(qCtx.Q())
	if err != nil {
		return err
	}
	b := append([]byte(nil), *wire...)
	pool.ReleaseBuf(wire)
	u.gotWire = append(u.gotWire, b)

	uq := new(dns.Msg)
	if err := uq.Unpack(b); err != nil {
		return fmt.Errorf("upstream cannot parse query: %w", err)
	}
	r := u.reply(uq)
	rw, err := r.Pack()
	if err != nil {
		u.t.Fatalf("harness: upstream reply cannot be packed: %v", err)
	}
	r2 := new(dns.Msg)
	if err := r2.Unpack(rw); err != nil {
		return err
	}
	qCtx.SetResponse(r2)
	return nil
}

func auditHandler(t *testing.T, u *fakeUpstream, rules ...string) *EntryHandler {
	t.Helper()
	ps := make(map[string]any)
	m := coremain.NewTestMosdnsWithPlugins(ps)
	ps["upstream"] = u
	ps["cache"] = cache.NewCache(&cache.Args{Size: 1024}, cache.Opts{})
	ecs, err := ecs_handler.NewHandler(ecs_handler.Args{Forward: true})
	if err != nil {
		t.Fatal(err)
	}
	ps["ecs"] = ecs
	var ra []sequence.RuleArgs
	for _, r := range rules {
		if m, e, ok := strings.Cut(r, "?"); ok { // "matcher?exec"
			ra = append(ra, sequence.RuleArgs{Matches: []string{m}, Exec: e})
			continue
		}
		ra = append(ra, sequence.RuleArgs{Exec: r})
	}
	s, err := sequence.NewSequence(coremain.NewBP("test", m), ra)
	if err != nil {
		t.Fatal(err)
	}
	return NewEntryHandler(EntryHandlerOpts{Entry: s})
}

// clientQuery builds the query through the wire, as a server would see it.
func clientQuery(t *testing.T, q *dns.Msg) *dns.Msg {
	t.Helper()
	b, err := q.Pack()
	if err != nil {
		t.Fatal(err)
	}
	m := new(dns.Msg)
	if err := m.Unpack(b); err != nil {
		t.Fatal(err)
	}
	return m
}

func countOpt(m *dns.Msg) (n int, last *dns.OPT) {
	for _, sec := range [][]dns.RR{m.Answer, m.Ns, m.Extra} {
		for _, rr := range sec {
			if rr.Header().Rrtype == dns.TypeOPT {
				n++
				last = rr.(*dns.OPT)
			}
		}
	}
	return
}

func handle(t *testing.T, h *EntryHandler, q *dns.Msg, udp bool) *dns.Msg {
	t.Helper()
	meta := server.QueryMeta{ClientAddr: netip.MustParseAddr("192.0.2.1"), FromUDP: udp}
	p := h.Handle(context.Background(), q, meta, pool.PackBuffer)
	if p == nil {
		return nil
	}
	r := new(dns.Msg)
	if err := r.Unpack(*p); err != nil {
		t.Fatalf("reply cannot be parsed: %v", err)
	}
	return r
}

func aRR(name string, ttl uint32) dns.RR {
	return &dns.A{Hdr: dns.RR_Header{Name: name, Rrtype: dns.TypeA, Class: dns.ClassINET, Ttl: ttl}, A: []byte{192, 0, 2, 53}}
}

// Finding 1: upstream reply with an extended rcode, client without EDNS0.
func TestAuditExtendedRcodeNoClientOpt(t *testing.T) {
	for _, chain := range [][]string{
		{"$upstream"},
		{"$cache", "$upstream", "ttl 10-20"},
		{"$ecs", "forward_edns0opt 10", "$cache", "$upstream"},
	} {
		u := &fakeUpstream{t: t}
		u.reply = func(q *dns.Msg) *dns.Msg {
			r := new(dns.Msg)
			r.SetReply(q)
			r.SetEdns0(1232, false)
			r.Rcode = dns.RcodeBadCookie // 23, needs the OPT to be expressed
			return r
		}
		h := auditHandler(t, u, chain...)

		q := new(dns.Msg)
		q.SetQuestion("example.org.", dns.TypeA) // no OPT
		for _, udp := range []bool{true, false} {
			r := handle(t, h, clientQuery(t, q), udp)
			if r == nil {
				t.Errorf("chain %v udp=%v: client (no EDNS0) got NO reply at all for an upstream reply with extended rcode", chain, udp)
				continue
			}
			if n, _ := countOpt(r); n != 0 {
				t.Errorf("chain %v udp=%v: client had no OPT but reply has %d", chain, udp, n)
			}
		}
	}
}

// Control for finding 1: same upstream reply, client with EDNS0: fine.
func TestAuditExtendedRcodeWithClientOpt(t *testing.T) {
	u := &fakeUpstream{t: t}
	u.reply = func(q *dns.Msg) *dns.Msg {
		r := new(dns.Msg)
		r.SetReply(q)
		r.SetEdns0(1232, false)
		r.Rcode = dns.RcodeBadCookie
		return r
	}
	h := auditHandler(t, u, "$upstream")
	q := new(dns.Msg)
	q.SetQuestion("example.org.", dns.TypeA)
	q.SetEdns0(4096, true)
	r := handle(t, h, clientQuery(t, q), true)
	if r == nil {
		t.Fatal("no reply")
	}
	n, opt := countOpt(r)
	if n != 1 || !opt.Do() || len(opt.Option) != 0 {
		t.Fatalf("bad opt: n=%d %v", n, opt)
	}
	t.Logf("rcode to EDNS client: %d", r.Rcode)
}

