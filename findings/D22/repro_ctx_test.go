// Audit C02, finding 2: the caller's wait prefers nothing: when the reply was handed
// over before the caller's deadline but the caller reaches its select only after the
// deadline (it was still inside / just behind the send call), select picks ctx.Done() in
// about half of the runs and the received reply is thrown away.
package transport

import (
	"bytes"
	"context"
	"io"
	"net"
	"sync"
	"testing"
	"time"

	"github.com/miekg/dns"
)

var _ = io.EOF
var _ = net.ErrClosed

const auditTrials = 40

// lateReturnWrite is the Write of the fake connection:
//  1. the reply becomes readable while the caller is still in its send call,
//  2. the connection reader consumes it and hands it over (well before the deadline),
//  3. the send call returns only after the caller's deadline (the caller's goroutine is
//     not scheduled / the write is slow; nothing bounds the duration of Write, the
//     code sets no write deadline on pipelined connections).
func lateReturnWrite(stream bool, deadline func() <-chan struct{}, handedOverAt *time.Time) func(c *auditConn, call int, p []byte) (int, error) {
	return func(c *auditConn, call int, p []byte) (int, error) {
		c.push(auditReplyFor(stream, p))
		c.waitDrained()
		*handedOverAt = time.Now()
		<-deadline()
		return len(p), nil
	}
}

func runTraditional(t *testing.T, stream bool) {
	q := auditQuery(t)
	lost := 0
	for i := 0; i < auditTrials; i++ {
		ctx, cancel := context.WithTimeout(context.Background(), time.Millisecond*30)
		dl, _ := ctx.Deadline()
		var handedOverAt time.Time
		c := newAuditConn(stream, lateReturnWrite(stream, ctx.Done, &handedOverAt))
		dc := NewDnsConn(TraditionalDnsConnOpts{WithLengthHeader: stream}, c)
		rec, _ := dc.ReserveNewQuery()
		resp, err := rec.ExchangeReserved(ctx, q)
		if !handedOverAt.Before(dl) {
			t.Fatalf("harness: reply was not handed over before the deadline")
		}
		if err != nil {
			lost++
			if lost == 1 {
				t.Logf("trial %d: reply handed over %v before the deadline, exchange returned: %v", i, dl.Sub(handedOverAt), err)
			}
		} else if !bytes.Equal((*resp)[12:], q[12:]) {
			t.Fatalf("wrong reply")
		}
		cancel()
		dc.Close()
	}
	if lost > 0 {
		t.Fatalf("%d of %d exchanges lost a reply that was received before the caller's deadline", lost, auditTrials)
	}
}

func Test_Audit_CtxVsDeliveredReply_Datagram(t *testing.T) { runTraditional(t, false) }
func Test_Audit_CtxVsDeliveredReply_Stream(t *testing.T)   { runTraditional(t, true) }

func Test_Audit_CtxVsDeliveredReply_Reuse(t *testing.T) {
	q := auditQuery(t)
	lost := 0
	for i := 0; i < auditTrials; i++ {
		ctx, cancel := context.WithTimeout(context.Background(), time.Millisecond*30)
		dl, _ := ctx.Deadline()
		var handedOverAt time.Time
		rt := NewReuseConnTransport(ReuseConnOpts{
			DialContext: func(_ context.Context) (NetConn, error) {
				return newAuditConn(true, lateReturnWrite(true, ctx.Done, &handedOverAt)), nil
			},
		})
		resp, err := rt.ExchangeContext(ctx, q)
		if !handedOverAt.Before(dl) {
			t.Fatalf("harness: reply was not handed over before the deadline")
		}
		if err != nil {
			lost++
			if lost == 1 {
				t.Logf("trial %d: reply handed over %v before the deadline, exchange returned: %v", i, dl.Sub(handedOverAt), err)
			}
		} else if !bytes.Equal((*resp)[12:], q[12:]) {
			t.Fatalf("wrong reply")
		}
		cancel()
		rt.Close()
	}
	if lost > 0 {
		t.Fatalf("%d of %d exchanges lost a reply that was received before the caller's deadline", lost, auditTrials)
	}
}

var _ sync.Mutex
var _ dns.Msg
// ---------------------------------------------------------------------------
// Synchronous fake NetConn (shared by all audit tests; copied into each file).
//
// The fake has no latency and no goroutine of its own. Everything the "server"
// does happens inside Write, which is called by the goroutine of the exchange
// under test. So the test chooses the schedule:
//   - push(...)        makes bytes (stream) / a datagram readable for the connection reader,
//   - waitDrained()    returns when the reader consumed everything that was pushed and
//                      called Read again. Both readLoops hand the reply over before
//                      they read again, so after waitDrained() the hand-off is done.
//   - pushEOF()        the next Read after the pushed data returns io.EOF,
//   - waitClosed()     returns when the code under test called Close() on the conn.
// ---------------------------------------------------------------------------

type auditConn struct {
	mu      sync.Mutex
	cond    *sync.Cond
	stream  bool     // true: byte stream (Read may return part of a chunk). false: datagrams.
	buf     [][]byte // pending chunks / datagrams
	eof     bool
	closed  bool
	waiting bool // the reader is parked in Read with nothing to read
	writes  int

	// onWrite is called by Write (without the lock). call is 1 for the first Write.
	onWrite func(c *auditConn, call int, p []byte) (int, error)
}

func newAuditConn(stream bool, onWrite func(c *auditConn, call int, p []byte) (int, error)) *auditConn {
	c := &auditConn{stream: stream, onWrite: onWrite}
	c.cond = sync.NewCond(&c.mu)
	return c
}

func (c *auditConn) Read(p []byte) (int, error) {
	c.mu.Lock()
	defer c.mu.Unlock()
	for {
		if c.closed {
			return 0, net.ErrClosed
		}
		if len(c.buf) > 0 {
			n := copy(p, c.buf[0])
			if c.stream && n < len(c.buf[0]) {
				c.buf[0] = c.buf[0][n:]
			} else {
				c.buf = c.buf[1:]
			}
			return n, nil
		}
		if c.eof {
			return 0, io.EOF
		}
		c.waiting = true
		c.cond.Broadcast()
		c.cond.Wait()
		c.waiting = false
	}
}

func (c *auditConn) Write(p []byte) (int, error) {
	c.mu.Lock()
	if c.closed {
		c.mu.Unlock()
		return 0, net.ErrClosed
	}
	c.writes++
	call := c.writes
	c.mu.Unlock()
	cp := append([]byte(nil), p...)
	return c.onWrite(c, call, cp)
}

func (c *auditConn) Close() error {
	c.mu.Lock()
	c.closed = true
	c.cond.Broadcast()
	c.mu.Unlock()
	return nil
}

func (c *auditConn) SetDeadline(time.Time) error      { return nil }
func (c *auditConn) SetReadDeadline(time.Time) error  { return nil }
func (c *auditConn) SetWriteDeadline(time.Time) error { return nil }

func (c *auditConn) push(b []byte) {
	c.mu.Lock()
	c.buf = append(c.buf, b)
	c.cond.Broadcast()
	c.mu.Unlock()
}

func (c *auditConn) pushEOF() {
	c.mu.Lock()
	c.eof = true
	c.cond.Broadcast()
	c.mu.Unlock()
}

// waitDrained returns when the reader consumed all pushed data and is parked in Read again.
func (c *auditConn) waitDrained() {
	c.mu.Lock()
	for !(len(c.buf) == 0 && c.waiting) && !c.closed {
		c.cond.Wait()
	}
	c.mu.Unlock()
}

func (c *auditConn) waitClosed() {
	c.mu.Lock()
	for !c.closed {
		c.cond.Wait()
	}
	c.mu.Unlock()
}

// auditReplyFor builds the wire reply for the written query p (p is what the code under
// test passed to Write: with the 2 byte length prefix if stream). The reply is the query
// with the QR bit set, framed like the query.
func auditReplyFor(stream bool, p []byte) []byte {
	r := append([]byte(nil), p...)
	if stream {
		r[2+2] |= 0x80
	} else {
		r[2] |= 0x80
	}
	return r
}

func auditQuery(t *testing.T) []byte {
	q := new(dns.Msg)
	q.SetQuestion("example.org.", dns.TypeA)
	q.Id = 0x4242
	b, err := q.Pack()
	if err != nil {
		t.Fatal(err)
	}
	return b
}
