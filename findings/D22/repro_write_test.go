// Audit C02, finding 3: a send error throws away a reply that was already handed over.
//  a. datagram: the reply arrives while the caller is inside its 1 s retransmission
//     write and that write fails (ENOBUFS, ECONNREFUSED from a queued icmp error, ...).
//     The exchange returns the write error and closes the connection; the reply sits in
//     the reply channel.
//  b. stream, pipelined and non-pipelined: the reply (and the peer's close) arrive while
//     the caller is inside the first write, which then reports the broken connection.
package transport

import (
	"bytes"
	"context"
	"errors"
	"io"
	"net"
	"sync"
	"syscall"
	"testing"
	"time"

	"github.com/miekg/dns"
)

var _ = io.EOF
var _ = net.ErrClosed
var _ sync.Mutex
var _ dns.Msg

func wantReply(t *testing.T, q []byte, resp *[]byte, err error) {
	t.Helper()
	if err != nil {
		t.Fatalf("the reply was received and handed over before the caller's deadline, but the exchange failed: %v", err)
	}
	if !bytes.Equal((*resp)[12:], q[12:]) || !bytes.Equal((*resp)[:2], q[:2]) {
		t.Fatalf("wrong reply")
	}
}

// a. datagram, reply arrives during the retransmission, the retransmission fails.
func Test_Audit_WriteErrVsDeliveredReply_DatagramResend(t *testing.T) {
	q := auditQuery(t)
	c := newAuditConn(false, func(c *auditConn, call int, p []byte) (int, error) {
		if call == 1 {
			return len(p), nil // query sent, the server is slow (> 1s)
		}
		// retransmission after 1s. The reply of the first transmission arrives now.
		c.push(auditReplyFor(false, p))
		c.waitDrained() // reader has handed the reply over
		return 0, &net.OpError{Op: "write", Net: "udp", Err: syscall.ENOBUFS}
	})
	dc := NewDnsConn(TraditionalDnsConnOpts{WithLengthHeader: false}, c)
	defer dc.Close()
	ctx, cancel := context.WithTimeout(context.Background(), time.Second*5)
	defer cancel()
	rec, _ := dc.ReserveNewQuery()
	resp, err := rec.ExchangeReserved(ctx, q)
	wantReply(t, q, resp, err)
}

var errBroken = errors.New("write: connection reset by peer")

// b1. pipelined stream: reply + EOF arrive during the first write; the write reports the
// broken connection.
func Test_Audit_WriteErrVsDeliveredReply_StreamPipeline(t *testing.T) {
	q := auditQuery(t)
	c := newAuditConn(true, func(c *auditConn, call int, p []byte) (int, error) {
		c.push(auditReplyFor(true, p))
		c.waitDrained()
		c.pushEOF()
		c.waitClosed() // reader saw EOF and closed the connection
		return len(p), errBroken
	})
	dc := NewDnsConn(TraditionalDnsConnOpts{WithLengthHeader: true}, c)
	defer dc.Close()
	ctx, cancel := context.WithTimeout(context.Background(), time.Second*5)
	defer cancel()
	rec, _ := dc.ReserveNewQuery()
	resp, err := rec.ExchangeReserved(ctx, q)
	wantReply(t, q, resp, err)
}

// b2. non-pipelined stream.
func Test_Audit_WriteErrVsDeliveredReply_StreamReuse(t *testing.T) {
	q := auditQuery(t)
	rt := NewReuseConnTransport(ReuseConnOpts{
		DialContext: func(_ context.Context) (NetConn, error) {
			return newAuditConn(true, func(c *auditConn, call int, p []byte) (int, error) {
				c.push(auditReplyFor(true, p))
				c.waitDrained()
				c.pushEOF()
				c.waitClosed()
				return len(p), errBroken
			}), nil
		},
	})
	defer rt.Close()
	ctx, cancel := context.WithTimeout(context.Background(), time.Second*5)
	defer cancel()
	resp, err := rt.ExchangeContext(ctx, q)
	wantReply(t, q, resp, err)
}
// ---------------------------------------------------------------------------
// Synchronous fake NetConn (shared by all audit tests; copied into each file).
//
// The fake has no latency and no goroutine of its own. Everything the "server"
// does happens inside Write, which is called by the goroutine of the exchange
// under test. So the test chooses the schedule:
//   - push(...)        makes bytes (stream) / a datagram readable for the connection reader,
//   - waitDrained()    returns when the reader consumed everything that was pushed and
//                      called Read again. Both readLoops hand the reply over before
//                      they read again, so after waitDrained() the hand-off is done.
//   - pushEOF()        the next Read after the pushed data returns io.EOF,
//   - waitClosed()     returns when the code under test called Close() on the conn.
// ---------------------------------------------------------------------------

type auditConn struct {
	mu      sync.Mutex
	cond    *sync.Cond
	stream  bool     // true: byte stream (Read may return part of a chunk). false: datagrams.
	buf     [][]byte // pending chunks / datagrams
	eof     bool
	closed  bool
	waiting bool // the reader is parked in Read with nothing to read
	writes  int

	// onWrite is called by Write (without the lock). call is 1 for the first Write.
	onWrite func(c *auditConn, call int, p []byte) (int, error)
}

func newAuditConn(stream bool, onWrite func(c *auditConn, call int, p []byte) (int, error)) *auditConn {
	c := &auditConn{stream: stream, onWrite: onWrite}
	c.cond = sync.NewCond(&c.mu)
	return c
}

func (c *auditConn) Read(p []byte) (int, error) {
	c.mu.Lock()
	defer c.mu.Unlock()
	for {
		if c.closed {
			return 0, net.ErrClosed
		}
		if len(c.buf) > 0 {
			n := copy(p, c.buf[0])
			if c.stream && n < len(c.buf[0]) {
				c.buf[0] = c.buf[0][n:]
			} else {
				c.buf = c.buf[1:]
			}
			return n, nil
		}
		if c.eof {
			return 0, io.EOF
		}
		c.waiting = true
		c.cond.Broadcast()
		c.cond.Wait()
		c.waiting = false
	}
}

func (c *auditConn) Write(p []byte) (int, error) {
	c.mu.Lock()
	if c.closed {
		c.mu.Unlock()
		return 0, net.ErrClosed
	}
	c.writes++
	call := c.writes
	c.mu.Unlock()
	cp := append([]byte(nil), p...)
	return c.onWrite(c, call, cp)
}

func (c *auditConn) Close() error {
	c.mu.Lock()
	c.closed = true
	c.cond.Broadcast()
	c.mu.Unlock()
	return nil
}

func (c *auditConn) SetDeadline(time.Time) error      { return nil }
func (c *auditConn) SetReadDeadline(time.Time) error  { return nil }
func (c *auditConn) SetWriteDeadline(time.Time) error { return nil }

func (c *auditConn) push(b []byte) {
	c.mu.Lock()
	c.buf = append(c.buf, b)
	c.cond.Broadcast()
	c.mu.Unlock()
}

func (c *auditConn) pushEOF() {
	c.mu.Lock()
	c.eof = true
	c.cond.Broadcast()
	c.mu.Unlock()
}

// waitDrained returns when the reader consumed all pushed data and is parked in Read again.
func (c *auditConn) waitDrained() {
	c.mu.Lock()
	for !(len(c.buf) == 0 && c.waiting) && !c.closed {
		c.cond.Wait()
	}
	c.mu.Unlock()
}

func (c *auditConn) waitClosed() {
	c.mu.Lock()
	for !c.closed {
		c.cond.Wait()
	}
	c.mu.Unlock()
}

// auditReplyFor builds the wire reply for the written query p (p is what the code under
// test passed to Write: with the 2 byte length prefix if stream). The reply is the query
// with the QR bit set, framed like the query.
func auditReplyFor(stream bool, p []byte) []byte {
	r := append([]byte(nil), p...)
	if stream {
		r[2+2] |= 0x80
	} else {
		r[2] |= 0x80
	}
	return r
}

func auditQuery(t *testing.T) []byte {
	q := new(dns.Msg)
	q.SetQuestion("example.org.", dns.TypeA)
	q.Id = 0x4242
	b, err := q.Pack()
	if err != nil {
		t.Fatal(err)
	}
	return b
}
