package cache

import (
	"context"
	"sync/atomic"
	"testing"
	"time"

	"github.com/IrineSistiana/mosdns/v5/pkg/query_context"
	"github.com/IrineSistiana/mosdns/v5/plugin/executable/sequence"
	"github.com/miekg/dns"
)

// Audit C05, finding 1.
//
// lazy_cache_ttl is on. An NXDOMAIN answer (SOA ttl 3600) is stored: it lives
// 30 s and has no stale life (message expiry == cache expiry). Queries keep
// arriving for the name. The query whose lookup straddles the expiry instant
// (pkg/cache.Get reads the clock before it, getRespFromCache reads it again
// after it) is answered with the expired NXDOMAIN as a "lazy hit": every ttl
// is 5 and a background refresh is started, although an expired negative
// answer must be a miss.
//
// The entry is aged through its item times (as if it had been stored 30 s
// minus 1 ms ago); nothing else is touched.
func TestZZAuditExpiredNegativeAnswerServedAsLazyHit(t *testing.T) {
	c := NewCache(&Args{LazyCacheTTL: 86400}, Opts{})
	defer c.Close()

	name := "nx.example."
	q := new(dns.Msg)
	q.SetQuestion(name, dns.TypeA)
	k := getMsgKey(query_context.NewContext(q.Copy()).Q())

	nx := new(dns.Msg)
	nx.SetReply(q)
	nx.Rcode = dns.RcodeNameError
	nx.Ns = []dns.RR{&dns.SOA{Hdr: dns.RR_Header{Name: "example.", Rrtype: dns.TypeSOA, Class: dns.ClassINET, Ttl: 3600}, Ns: "ns.", Mbox: "m.", Minttl: 3600}}

	type ctxKey struct{}
	fg := context.WithValue(context.Background(), ctxKey{}, true)
	var bgRefresh atomic.Int32
	upstream := sequence.NewChainWalker([]*sequence.ChainNode{{E: sequence.ExecutableFunc(
		func(ctx context.Context, qc *query_context.Context) error {
			if ctx.Value(ctxKey{}) == nil { // background refresh of the cache
				bgRefresh.Add(1)
				return nil
			}
			if qc.R() == nil { // miss: "upstream" answers
				qc.SetResponse(nx.Copy())
			}
			return nil
		})}}, nil)

	const life = 30 * time.Second
	deadline := time.Now().Add(20 * time.Second)
	trials := 0
	for time.Now().Before(deadline) {
		trials++
		c.backend.Flush()

		// miss -> stored
		if err := c.Exec(fg, query_context.NewContext(q.Copy()), upstream); err != nil {
			t.Fatal(err)
		}
		v, cacheExp, ok := c.backend.Get(key(k))
		if !ok {
			t.Fatal("NXDOMAIN was not stored")
		}
		if d := v.expirationTime.Sub(v.storedTime); d != life || !cacheExp.Equal(v.expirationTime) {
			t.Fatalf("unexpected life %v / cache expiry %v vs %v", d, cacheExp, v.expirationTime)
		}

		// as if stored 30 s - 1 ms ago
		age := life - time.Millisecond
		c.backend.Store(key(k), &item{resp: v.resp, storedTime: v.storedTime.Add(-age), expirationTime: v.expirationTime.Add(-age)}, cacheExp.Add(-age))

		// queries keep coming until the entry is gone
		for {
			qc := query_context.NewContext(q.Copy())
			before := time.Now()
			if err := c.Exec(fg, qc, upstream); err != nil {
				t.Fatal(err)
			}
			r := qc.R()
			if ttl := r.Ns[0].Header().Ttl; ttl == expiredMsgTtl {
				t.Fatalf("trial %d: a query issued %v after the NXDOMAIN answer was stored (life 30 s, no stale life) found it expired "+
					"and was still answered with it, ttl %d, as a lazy hit; background refreshes started: %d",
					trials, before.Sub(v.storedTime.Add(-age)), ttl, waitRefresh(&bgRefresh))
			}
			if time.Since(v.expirationTime.Add(-age)) > time.Millisecond {
				break
			}
		}
	}
	t.Logf("%d trials, expired negative answer never served", trials)
}

func waitRefresh(n *atomic.Int32) int32 {
	for i := 0; i < 100 && n.Load() == 0; i++ {
		time.Sleep(time.Millisecond)
	}
	return n.Load()
}
