package cache

// Audit C19, finding 1: a single cached response can be larger than the block
// length readDump accepts (a 64k upstream message that used name compression
// is packed without compression by writeDump). writeDump writes the block
// anyway, so loading the intact dump fails and loses that block and all later ones.

import (
	"bytes"
	"context"
	"encoding/binary"
	"fmt"
	"strings"
	"testing"

	"github.com/IrineSistiana/mosdns/v5/pkg/query_context"
	"github.com/IrineSistiana/mosdns/v5/plugin/executable/sequence"
	"github.com/miekg/dns"
)

// bigWire builds a legal, <= 65535 byte DNS response whose answers all use a
// compression pointer to the 255-octet question name.
func bigWire(t *testing.T) (qname string, wire []byte) {
	// 255 octets on the wire: 3 labels of 63 + 1 label of 61 + root.
	l63 := strings.Repeat("a", 63)
	qname = l63 + "." + l63 + "." + l63 + "." + strings.Repeat("b", 61) + "."
	buf := make([]byte, 0, 65535)
	hdr := make([]byte, 12)
	binary.BigEndian.PutUint16(hdr[0:], 1)
	binary.BigEndian.PutUint16(hdr[2:], 0x8180) // QR RD RA
	binary.BigEndian.PutUint16(hdr[4:], 1)
	buf = append(buf, hdr...)
	for _, l := range strings.Split(strings.TrimSuffix(qname, "."), ".") {
		buf = append(buf, byte(len(l)))
		buf = append(buf, l...)
	}
	buf = append(buf, 0)
	buf = append(buf, 0, 1, 0, 1) // A IN
	n := 0
	for len(buf)+16 <= 65535 {
		buf = append(buf, 0xC0, 12, 0, 1, 0, 1, 0, 0, 0x0e, 0x10, 0, 4, 10, byte(n>>16), byte(n>>8), byte(n))
		n++
	}
	binary.BigEndian.PutUint16(buf[6:], uint16(n))
	return qname, buf
}

type audit1Next struct{ r *dns.Msg }

func (n audit1Next) Exec(ctx context.Context, qCtx *query_context.Context) error {
	if qCtx.R() == nil {
		qCtx.SetResponse(n.r.Copy())
	}
	return nil
}

func TestAudit1EntryLargerThanBlockLimit(t *testing.T) {
	qname, wire := bigWire(t)
	t.Logf("upstream wire len %d", len(wire))
	resp := new(dns.Msg)
	if err := resp.Unpack(wire); err != nil {
		t.Fatal(err)
	}
	t.Logf("answers: %d, uncompressed len %d", len(resp.Answer), resp.Len())

	c := NewCache(&Args{Size: 1024}, Opts{})
	defer c.Close()

	run := func(c *Cache, q *dns.Msg, r *dns.Msg) *dns.Msg {
		qCtx := query_context.NewContext(q)
		var cw sequence.ChainWalker
		if r != nil {
			cw = sequence.NewChainWalker([]*sequence.ChainNode{{E: audit1Next{r}}}, nil)
		} else {
			cw = sequence.NewChainWalker(nil, nil)
		}
		if err := c.Exec(context.Background(), qCtx, cw); err != nil {
			t.Fatal(err)
		}
		return qCtx.R()
	}

	// 20 ordinary entries and the big one.
	var qs []*dns.Msg
	for i := 0; i < 20; i++ {
		q := new(dns.Msg)
		q.SetQuestion(fmt.Sprintf("n%d.example.", i), dns.TypeA)
		r := new(dns.Msg)
		r.SetReply(q)
		rr, _ := dns.NewRR(fmt.Sprintf("n%d.example. 3600 IN A 192.0.2.%d", i, i))
		r.Answer = append(r.Answer, rr)
		run(c, q, r)
		qs = append(qs, q)
	}
	q := new(dns.Msg)
	q.SetQuestion(qname, dns.TypeA)
	run(c, q, resp)
	qs = append(qs, q)

	for _, q := range qs {
		if run(c, q, nil) == nil {
			t.Fatalf("not cached in first cache: %s", q.Question[0].Name[:10])
		}
	}

	buf := new(bytes.Buffer)
	enw, err := c.writeDump(buf)
	if err != nil {
		t.Fatalf("writeDump: %v", err)
	}
	t.Logf("dumped %d entries, %d bytes", enw, buf.Len())

	c2 := NewCache(&Args{Size: 1024}, Opts{})
	defer c2.Close()
	enr, err := c2.readDump(bytes.NewReader(buf.Bytes()))
	if err != nil {
		t.Errorf("readDump of an intact dump: %v (entries read %d of %d)", err, enr, enw)
	}
	miss := 0
	for _, q := range qs {
		if run(c2, q, nil) == nil {
			miss++
		}
	}
	if miss > 0 {
		t.Errorf("%d of %d entries served by the first cache are not served after reload", miss, len(qs))
	}
}
