package fastforward

import (
	"context"
	"errors"
	"sync"
	"sync/atomic"
	"testing"
	"time"

	"github.com/IrineSistiana/mosdns/v5/pkg/pool"
	"github.com/IrineSistiana/mosdns/v5/pkg/query_context"
	"github.com/miekg/dns"
	"go.uber.org/zap"
)

// auditUpstream is an in-memory upstream.Upstream.
type auditUpstream struct {
	f func(ctx context.Context, q []byte) (*[]byte, error)
}

func (u *auditUpstream) ExchangeContext(ctx context.Context, q []byte) (*[]byte, error) {
	return u.f(ctx, q)
}
func (u *auditUpstream) Close() error { return nil }

func auditForward(concurrent int, us ...*auditUpstream) *Forward {
	f := &Forward{
		args:         &Args{Concurrent: concurrent},
		logger:       zap.NewNop(),
		tag2Upstream: make(map[string]*upstreamWrapper),
	}
	for i, u := range us {
		uw := newWrapper(i, UpstreamConfig{Addr: "fake"}, "")
		uw.u = u
		f.us = append(f.us, uw)
	}
	return f
}

// Schedule (all steps are legal: a goroutine may be descheduled at any point):
//  1. forward (concurrent=2, the one upstream is asked twice) starts the first exchange,
//     then its collecting goroutine is held up before it starts the second one
//     (it is parked inside pool.GetBuf, called by copyPayload).
//  2. the first exchange finishes with a NOERROR reply; its goroutine offers it on the result channel.
//  3. only after that the caller's context ends.
//  4. the collecting goroutine goes on: it starts the second exchange (never answers) and collects.
//
// The good reply arrived before the context ended, so it has to be returned.
func TestAuditGoodReplyBeforeCtxEnd(t *testing.T) {
	const rounds = 40
	lost := 0
	for round := 0; round < rounds; round++ {
		q := new(dns.Msg)
		q.SetQuestion("example.org.", dns.TypeA)
		q.Id = uint16(1000 + round)
		qCtx := query_context.NewContext(q)

		// The reply of the first exchange is prepared in advance, so that
		// the hook below only ever sees the calls of the collecting goroutine.
		resp := new(dns.Msg)
		resp.SetReply(q)
		resp.Answer = append(resp.Answer, &dns.A{
			Hdr: dns.RR_Header{Name: "example.org.", Rrtype: dns.TypeA, Class: dns.ClassINET, Ttl: 60},
			A:   []byte{192, 0, 2, 1},
		})
		respWire, err := pool.PackBuffer(resp)
		if err != nil {
			t.Fatal(err)
		}

		var calls atomic.Int32
		firstReturned := make(chan struct{})
		u := &auditUpstream{f: func(ctx context.Context, q []byte) (*[]byte, error) {
			if calls.Add(1) == 1 {
				defer close(firstReturned)
				return respWire, nil // good answer, right away
			}
			<-ctx.Done() // never answers
			return nil, context.Cause(ctx)
		}}
		f := auditForward(2, u)

		// Hold the collecting goroutine in its 4th GetBuf call
		// (PackBuffer: 2 calls, copyPayload #1, copyPayload #2).
		orgGetBuf := pool.GetBuf
		var getBufCalls atomic.Int32
		parked := make(chan struct{})
		goOn := make(chan struct{})
		var once sync.Once
		pool.GetBuf = func(n int) *[]byte {
			if getBufCalls.Add(1) == 4 {
				once.Do(func() { close(parked) })
				<-goOn
			}
			return orgGetBuf(n)
		}

		ctx, cancel := context.WithCancel(context.Background())
		type out struct {
			err error
		}
		done := make(chan out, 1)
		go func() {
			done <- out{err: f.Exec(ctx, qCtx)}
		}()

		<-parked
		<-firstReturned
		time.Sleep(time.Millisecond * 20) // the good reply is unpacked and offered on the result channel
		cancel()                          // the caller's context ends AFTER the good reply has arrived
		time.Sleep(time.Millisecond * 5)
		close(goOn)

		o := <-done
		pool.GetBuf = orgGetBuf
		if o.err != nil {
			if !errors.Is(o.err, context.Canceled) {
				t.Fatalf("unexpected error: %v", o.err)
			}
			lost++
		} else if r := qCtx.R(); r == nil || len(r.Answer) != 1 {
			t.Fatalf("round %d: nil err but no good reply: %v", round, r)
		}
	}
	if lost > 0 {
		t.Fatalf("in %d of %d rounds the NOERROR reply that had arrived before the context ended was dropped and the context's error was returned", lost, rounds)
	}
}
