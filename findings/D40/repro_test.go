package server_handler

// Audit C03, finding 1: a response that dns.Msg.Unpack accepts but dns.Msg.Pack
// refuses makes EntryHandler.Handle return nil: the client gets no reply at all
// (udp), its connection is closed (tcp/dot) or it gets a 500 (doh), instead of
// the SERVFAIL that the Handler contract ("MUST ALWAYS return a response")
// and the property ask for.

import (
	"context"
	"encoding/binary"
	"net"
	"testing"
	"time"

	"github.com/IrineSistiana/mosdns/v5/pkg/pool"
	"github.com/IrineSistiana/mosdns/v5/pkg/query_context"
	"github.com/IrineSistiana/mosdns/v5/pkg/server"
	"github.com/IrineSistiana/mosdns/v5/plugin/executable/cache"
	fastforward "github.com/IrineSistiana/mosdns/v5/plugin/executable/forward"
	"github.com/IrineSistiana/mosdns/v5/plugin/executable/sequence"
	"github.com/miekg/dns"
)

// auditBadAlpnUpstream is a udp upstream that echoes id and question and
// answers every query with one HTTPS record whose alpn list contains an
// empty alpn-id ("h2" followed by a zero length id). miekg/dns unpacks such a
// record but cannot pack it again ("dns: svcbalpn: empty alpn-id").
func auditBadAlpnUpstream(t *testing.T) (addr string, stop func()) {
	pc, err := net.ListenPacket("udp", "127.0.0.1:0")
	if err != nil {
		t.Fatal(err)
	}
	go func() {
		buf := make([]byte, 4096)
		for {
			n, from, err := pc.ReadFrom(buf)
			if err != nil {
				return
			}
			q := new(dns.Msg)
			if err := q.Unpack(buf[:n]); err != nil || len(q.Question) != 1 {
				continue
			}
			// header: same id, QR RD RA, 1 question, 1 answer
			w := make([]byte, 12)
			binary.BigEndian.PutUint16(w, q.Id)
			binary.BigEndian.PutUint16(w[2:], 0x8180)
			binary.BigEndian.PutUint16(w[4:], 1)
			binary.BigEndian.PutUint16(w[6:], 1)
			// question: copied from the query, byte for byte
			qEnd := 12
			for buf[qEnd] != 0 {
				qEnd += int(buf[qEnd]) + 1
			}
			qEnd += 1 + 4
			w = append(w, buf[12:qEnd]...)
			// answer: <qname ptr> HTTPS IN 60 rdlen { prio=1 target=. alpn: "h2", "" }
			w = append(w, 0xc0, 12)
			w = binary.BigEndian.AppendUint16(w, dns.TypeHTTPS)
			w = binary.BigEndian.AppendUint16(w, dns.ClassINET)
			w = binary.BigEndian.AppendUint32(w, 60)
			rd := []byte{0, 1, 0, 0, 1, 0, 4, 2, 'h', '2', 0}
			w = binary.BigEndian.AppendUint16(w, uint16(len(rd)))
			w = append(w, rd...)
			_, _ = pc.WriteTo(w, from)
		}
	}()
	return pc.LocalAddr().String(), func() { pc.Close() }
}

func auditCheckServfailOrAnswer(t *testing.T, q *dns.Msg, payload []byte) {
	t.Helper()
	r := new(dns.Msg)
	if err := r.Unpack(payload); err != nil {
		t.Fatalf("reply does not unpack: %v", err)
	}
	if r.Id != q.Id || !r.Response || !r.RecursionAvailable || len(r.Question) != 1 || r.Question[0] != q.Question[0] {
		t.Fatalf("bad reply: %v", r)
	}
}

// Through the real udp server, the real forward plugin and a udp upstream.
func TestAuditC03_1_UnpackableUpstreamRecord_UDP(t *testing.T) {
	upAddr, stop := auditBadAlpnUpstream(t)
	defer stop()

	f, err := fastforward.NewForward(&fastforward.Args{Upstreams: []fastforward.UpstreamConfig{{Addr: "udp://" + upAddr}}}, fastforward.Opts{})
	if err != nil {
		t.Fatal(err)
	}
	defer f.Close()
	h := NewEntryHandler(EntryHandlerOpts{Entry: f})

	pc, err := net.ListenPacket("udp", "127.0.0.1:0")
	if err != nil {
		t.Fatal(err)
	}
	defer pc.Close()
	go server.ServeUDP(pc.(*net.UDPConn), h, server.UDPServerOpts{})

	c, err := net.Dial("udp", pc.LocalAddr().String())
	if err != nil {
		t.Fatal(err)
	}
	defer c.Close()
	q := new(dns.Msg)
	q.SetQuestion("svc.Example.com.", dns.TypeHTTPS)
	q.Id = 4242
	b, _ := q.Pack()
	if _, err := c.Write(b); err != nil {
		t.Fatal(err)
	}
	c.SetReadDeadline(time.Now().Add(2 * time.Second))
	buf := make([]byte, 4096)
	n, err := c.Read(buf)
	if err != nil {
		t.Fatalf("a well-formed query got no reply (want the answer or SERVFAIL): %v", err)
	}
	auditCheckServfailOrAnswer(t, q, buf[:n])
}

// Handle directly, tcp framing, behind a cache: the entry that cannot be
// packed is stored, every later query for the name is left without a reply
// too, without any upstream involved.
func TestAuditC03_1_UnpackableUpstreamRecord_Cache(t *testing.T) {
	upAddr, stop := auditBadAlpnUpstream(t)
	defer stop()
	f, err := fastforward.NewForward(&fastforward.Args{Upstreams: []fastforward.UpstreamConfig{{Addr: "udp://" + upAddr}}}, fastforward.Opts{})
	if err != nil {
		t.Fatal(err)
	}
	defer f.Close()
	ca := cache.NewCache(&cache.Args{Size: 1024}, cache.Opts{})
	defer ca.Close()
	chain := []*sequence.ChainNode{{RE: ca}, {E: f}}
	entry := sequence.ExecutableFunc(func(ctx context.Context, qCtx *query_context.Context) error {
		w := sequence.NewChainWalker(chain, nil)
		return w.ExecNext(ctx, qCtx)
	})
	h := NewEntryHandler(EntryHandlerOpts{Entry: entry})

	for i := 0; i < 2; i++ {
		q := new(dns.Msg)
		q.SetQuestion("svc.example.com.", dns.TypeHTTPS)
		q.Id = uint16(100 + i)
		p := h.Handle(context.Background(), q.Copy(), server.QueryMeta{}, pool.PackTCPBuffer)
		if p == nil {
			t.Errorf("query #%d: Handle returned nil (tcp: connection is closed), want the answer or SERVFAIL", i)
		} else {
			auditCheckServfailOrAnswer(t, q, (*p)[2:])
		}
		if i == 0 {
			stop() // the second query can only be served from the cache
		}
	}
}
